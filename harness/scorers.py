"""User-defined scorers written against skchange's public extension API
(DESIGN.md section 2.2).  With `values=None` a scorer returns one solver variable per
requested cut and column ("any scorer"); with a dict of numbers it is an ordinary
concrete table scorer -- used to replay solver models on the unpatched code."""
from __future__ import annotations

import numpy as np
import z3

from symnp.core import SymReal
from symnp.proxy import SymArray

from skchange.anomaly_scores.base import BaseLocalAnomalyScore, BaseSaving
from skchange.change_scores.base import BaseChangeScore
from skchange.costs.base import BaseCost


def _lookup(values, name, default):
    v = values.get(name, default)
    return v


class _TableMixin:
    def _table_eval(self, cuts, tag):
        cuts = np.asarray(cuts)
        k = cuts.shape[0]
        out = np.empty((k, self.p), dtype=object)
        log = getattr(self, "requested_", None)
        for i in range(k):
            key = "_".join(str(int(c)) for c in cuts[i])
            if log is not None:
                log.append(tuple(int(c) for c in cuts[i]))
            for j in range(self.p):
                name = f"{tag}_{key}_{j}"
                if self.values is None:
                    out[i, j] = SymReal(z3.Real(name))
                else:
                    out[i, j] = _lookup(self.values, name, self.default)
        if self.values is not None and all(isinstance(v, (int, float)) for v in out.ravel()):
            return out.astype(float)
        return out.view(SymArray)

    def _table_fit(self, X):
        X = np.asarray(X)
        self.n_ = X.shape[0]
        self.seen_ = X            # what the detector handed to the scorer (C11, C10)
        self.requested_ = []
        if X.ndim == 2 and X.shape[1] != self.p and not self.any_p:
            raise AssertionError(f"table scorer built for p={self.p} fitted on p={X.shape[1]}")
        return self


class TableCost(_TableMixin, BaseCost):
    """cost(s, e)[j] = variable `<tag>{o|f}_s_e_j` (o: optimal parameter, f: fixed)."""

    def __init__(self, param=None, p=1, tag="c", values=None, default=0.0, min_size_=1, any_p=False):
        self.p = p
        self.tag = tag
        self.values = values
        self.default = default
        self.min_size_ = min_size_
        self.any_p = any_p
        super().__init__(param)

    @property
    def min_size(self):
        return self.min_size_

    def _fit(self, X, y=None):
        return self._table_fit(X)

    def _evaluate(self, cuts):
        return self._table_eval(cuts, self.tag + ("o" if self.param is None else "f"))


class TableChangeScore(_TableMixin, BaseChangeScore):
    """score(s, k, e)[j] = variable `<tag>_s_k_e_j`."""

    def __init__(self, p=1, tag="T", values=None, default=0.0, min_size_=1, any_p=False):
        self.p = p
        self.tag = tag
        self.values = values
        self.default = default
        self.min_size_ = min_size_
        self.any_p = any_p
        super().__init__()

    @property
    def min_size(self):
        return self.min_size_

    def _fit(self, X, y=None):
        return self._table_fit(X)

    def _evaluate(self, cuts):
        return self._table_eval(cuts, self.tag)


class TableSaving(_TableMixin, BaseSaving):
    """saving(s, e)[j] = variable `<tag>_s_e_j`."""

    def __init__(self, p=1, tag="S", values=None, default=0.0, min_size_=1, any_p=False, n_params=None):
        self.p = p
        self.tag = tag
        self.values = values
        self.default = default
        self.min_size_ = min_size_
        self.any_p = any_p
        self.n_params = n_params
        super().__init__()

    @property
    def min_size(self):
        return self.min_size_

    def get_param_size(self, p):
        return p if self.n_params is None else self.n_params * p

    def _fit(self, X, y=None):
        return self._table_fit(X)

    def _evaluate(self, cuts):
        return self._table_eval(cuts, self.tag)


class TableLocalScore(_TableMixin, BaseLocalAnomalyScore):
    """score(s, a, b, e)[j] = variable `<tag>_s_a_b_e_j`."""

    def __init__(self, p=1, tag="A", values=None, default=0.0, min_size_=1, any_p=False):
        self.p = p
        self.tag = tag
        self.values = values
        self.default = default
        self.min_size_ = min_size_
        self.any_p = any_p
        super().__init__()

    @property
    def min_size(self):
        return self.min_size_

    def _fit(self, X, y=None):
        return self._table_fit(X)

    def _evaluate(self, cuts):
        return self._table_eval(cuts, self.tag)


def values_from_model(model_dict, prefixes):
    """{name: float} for the table variables of a counterexample model."""
    from fractions import Fraction
    out = {}
    for k, v in (model_dict or {}).items():
        if any(k.startswith(p + "_") or k.startswith(p + "o_") or k.startswith(p + "f_") for p in prefixes):
            try:
                out[k] = float(Fraction(v))
            except Exception:
                pass
    return out


class UFCost(BaseCost):
    """'Any cost that depends on the data': the value for (start, end) and column j is
    a free real variable *named by the actual rows of the slice it was asked about*,
    i.e. an uninterpreted function of X[start:end].  Two evaluations agree iff they see
    the same rows in the same order."""

    def __init__(self, param=None, tag="U", min_size_=1):
        self.tag = tag
        self.min_size_ = min_size_
        super().__init__(param)

    @property
    def min_size(self):
        return self.min_size_

    def _fit(self, X, y=None):
        X = np.asarray(X)
        self.X_ = X.reshape(-1, 1) if X.ndim == 1 else X
        return self

    @staticmethod
    def rows_key(rows):
        from symnp.core import rv
        return "|".join(",".join(str(z3.simplify(rv(v))).replace("\n", "").replace(" ", "") for v in row) for row in rows)

    def value(self, rows, j):
        mode = "o" if self.param is None else "f"
        return z3.Real(f"{self.tag}{mode}{j}[{self.rows_key(rows)}]")

    def _evaluate(self, cuts):
        cuts = np.asarray(cuts)
        p = self.X_.shape[1]
        out = np.empty((cuts.shape[0], p), dtype=object)
        for i, (s, e) in enumerate(cuts):
            rows = self.X_[int(s):int(e)]
            for j in range(p):
                out[i, j] = SymReal(self.value(rows, j))
        return out.view(SymArray)
