#!/usr/bin/env python3
"""tools/regress_seeds.py [--tier quick] [--jobs 4] [--procs 4] [seed ids...]

Re-run every kept breaking change (seeded/<id>/) against the checks recorded in its
meta.json (`caught_by`), each in its own scratch worktree of /repo's HEAD
(tools/try_seed_wt.sh, test suite skipped: it was confirmed when the seed was kept), several
at a time.  A seed counts as caught when at least one of its checks exits 1 with a VIOLATION
line.  Exit 0 iff every seed is still caught.  Nothing under /repo or /verif/evidence is touched.
"""
import argparse, glob, json, os, re, subprocess, sys
from concurrent.futures import ThreadPoolExecutor

HERE = os.path.dirname(os.path.dirname(os.path.abspath(__file__)))


def one(seed, tier, procs):
    d = os.path.join(HERE, "seeded", seed)
    meta = json.load(open(os.path.join(d, "meta.json")))
    checks = meta.get("caught_by") or [meta["property"]]
    checks = [re.match(r"C\d\d", c).group(0) for c in checks if re.match(r"C\d\d", c)]
    env = dict(os.environ, SKIP_TESTS="1", VERIF_PROCS=str(procs))
    out = subprocess.run([os.path.join(HERE, "tools", "try_seed_wt.sh"), d, tier, checks[0]],
                         capture_output=True, text=True, env=env).stdout
    caught = bool(re.search(r"exit=1 violations=[1-9]", out))
    demo_ok = "demo exit with patch: 1" in out and "demo exit without patch: 0" in out
    return seed, checks[0], caught, demo_ok, out.strip().splitlines()[-1][:200] if out.strip() else ""


def main():
    ap = argparse.ArgumentParser()
    ap.add_argument("--tier", default="quick")
    ap.add_argument("--jobs", type=int, default=4)
    ap.add_argument("--procs", type=int, default=4)
    ap.add_argument("seeds", nargs="*")
    a = ap.parse_args()
    seeds = a.seeds or sorted(os.path.basename(os.path.dirname(p))
                              for p in glob.glob(os.path.join(HERE, "seeded", "C*", "meta.json")))
    bad = 0
    with ThreadPoolExecutor(a.jobs) as ex:
        for seed, chk, caught, demo_ok, last in ex.map(lambda s: one(s, a.tier, a.procs), seeds):
            print(f"{seed} {chk} caught={caught} demo_ok={demo_ok} | {last}", flush=True)
            bad += (not caught) or (not demo_ok)
    print(f"{len(seeds) - bad}/{len(seeds)} seeds caught")
    return 1 if bad else 0


if __name__ == "__main__":
    sys.exit(main())
