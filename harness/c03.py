"""C03 -- CAPA / MVCAPA anomalies maximise the total penalised saving.

The detectors run on table savings of free real variables (collective S_s_e_j, point
P_t_t+1_j), constrained only to be non-negative and sub-additive under admissible
splits, with symbolic penalties.  Per path z3 (LRA) decides that every cumulative score
equals the explicit maximum over all admissible anomaly sets of the prefix."""
from __future__ import annotations

import itertools
from fractions import Fraction

import numpy as np
import pandas as pd
import z3

from symnp import proxy
from symnp.core import SymReal, rv
from symnp.drive import Acc, Harness, Job
from symnp.witness import FloatEval, close, robust_model

from .common import model_env, tsum
from .scorers import TableSaving, values_from_model
from .wellformed import check_anomalies, problems_anomalies

PROPERTY = "C03"
FUNCTIONS = [
    "skchange.anomaly_detectors.mvcapa:run_base_capa",
    "skchange.anomaly_detectors.mvcapa:optimise_savings",
    "skchange.anomaly_detectors.mvcapa:penalise_savings",
    "skchange.anomaly_detectors.mvcapa:get_anomalies",
    "skchange.anomaly_detectors.mvcapa:find_affected_components",
    "skchange.anomaly_detectors.mvcapa:run_mvcapa",
    "skchange.anomaly_detectors.mvcapa:capa_penalty",
    "skchange.anomaly_detectors.mvcapa:capa_penalty_factory",
    "skchange.anomaly_detectors.mvcapa:MVCAPA.__init__",
    "skchange.anomaly_detectors.mvcapa:MVCAPA._predict",
    "skchange.anomaly_detectors.capa:run_capa",
    "skchange.anomaly_detectors.capa:CAPA.__init__",
    "skchange.anomaly_detectors.capa:CAPA._fit",
    "skchange.anomaly_detectors.capa:CAPA._get_penalty_components",
    "skchange.anomaly_detectors.capa:CAPA._predict",
    "skchange.anomaly_detectors.base:CollectiveAnomalyDetector._format_sparse_output",
    "skchange.anomaly_detectors.base:SubsetCollectiveAnomalyDetector._format_sparse_output",
]
BOUNDS = {
    "quick": "CAPA: p in {1,2}, min_segment_length 2, max_segment_length in {2,3,n}, n<=4 (n=5 for p=1, M in {2,3}); "
             "MVCAPA with user penalty callables (alpha, beta_1..beta_p symbolic): p=2, n<=3; all savings and "
             "penalty scales symbolic",
    "thorough": "CAPA: p=1: m=2 n<=4 (n=5 with M=2), m=3 n<=5; p=2 n<=4; MVCAPA: p=2, n=2 in six penalty regimes, n=3 in the dense and sparse regimes; named penalty families n=2 (p=3 runs: see C16)",
}
STUBS = ["TableSaving: user-defined saving returning one free real per (start, end, column)",
         "MVCAPA penalties: user callables returning symbolic (alpha, betas)"]
ASSUMPTIONS = [
    "savings >= 0", "per-column sub-additivity S(s,e,j) <= S(s,k,j) + S(k,e,j) for splits into parts >= min_segment_length",
    "penalty scales >= 0; MVCAPA per-component penalties beta = 0 or beta >= 1e-8 (penalise_savings treats beta < 1e-8 "
    "as zero; the gap is outside the claim)", "exact real arithmetic"]
OUTSIDE = ["n beyond the bounds", "savings that are not sub-additive", "the chi2 quantiles of the 'intermediate' family (environment)",
           "per-component penalties in (0, 1e-8)"]


def svar(s, e, j):
    return z3.Real(f"S_{s}_{e}_{j}")


def pvar(t, j):
    return z3.Real(f"P_{t}_{t + 1}_{j}")


def dummy_X(n, p):
    return pd.DataFrame(np.zeros((n, p)))


def table_assumptions(n, p, m, M):
    cs = []
    for j in range(p):
        for s in range(n):
            for e in range(s + 1, n + 1):
                cs.append(svar(s, e, j) >= 0)
            cs.append(pvar(s, j) >= 0)
        for s in range(n):
            for e in range(s + 2 * m, n + 1):
                for k in range(s + m, e - m + 1):
                    cs.append(svar(s, e, j) <= svar(s, k, j) + svar(k, e, j))
    return cs


def collective_candidates(t, m, M):
    """admissible collective anomalies inside [0, t)"""
    return [(s, e) for s in range(t) for e in range(s + m, min(s + M, t) + 1)]


def anomaly_sets(t, m, M):
    """all sets of disjoint collective anomalies (length in [m, M]) and point anomalies in [0, t)"""
    res = []

    def rec(pos, acc):
        if pos >= t:
            res.append(tuple(acc))
            return
        rec(pos + 1, acc)                              # position normal
        rec(pos + 1, acc + [("p", pos, pos + 1)])      # point anomaly
        for L in range(m, M + 1):
            if pos + L <= t:
                rec(pos + L, acc + [("c", pos, pos + L)])

    rec(0, [])
    return res


def penalised_terms(vals, alpha, betas):
    """all candidate values 'sum_J vals - alpha - sum_{i<|J|} betas_i' over non-empty J"""
    p = len(vals)
    out = []
    for k in range(1, p + 1):
        pen = alpha + tsum(betas[:k]) if betas else alpha
        for J in itertools.combinations(range(p), k):
            out.append(tsum([vals[j] for j in J]) - pen)
    return out


class Oracle:
    """Explicit maximum over anomaly sets, with one auxiliary variable per anomaly that
    is *defined* (max of the subset terms) inside each query."""

    def __init__(self, n, p, m, M, ca, cb, pa, pb):
        self.n, self.p, self.m, self.M = n, p, m, M
        self.v = {}
        self.defs = []
        for (s, e) in collective_candidates(n, m, M):
            self._define(("c", s, e), [svar(s, e, j) for j in range(p)], ca, cb)
        for t in range(n):
            self._define(("p", t, t + 1), [pvar(t, j) for j in range(p)], pa, pb)

    def _define(self, a, vals, alpha, betas):
        v = z3.Real(f"v_{a[0]}_{a[1]}_{a[2]}")
        terms = penalised_terms(vals, alpha, betas)
        self.v[a] = v
        self.defs.append(z3.And([v >= t for t in terms] + [z3.Or([v == t for t in terms])]))

    def total(self, A):
        return tsum([self.v[a] for a in A])

    def is_optimum(self, score, t):
        sets = anomaly_sets(t, self.m, self.M)
        totals = [self.total(A) for A in sets]
        D = z3.And(self.defs)
        return (z3.Implies(D, z3.And([score >= x for x in totals])),
                z3.Implies(D, z3.Or([score == x for x in totals])))

    def equals_total(self, score, A):
        return z3.Implies(z3.And(self.defs), score == self.total(A))


def _split_output(out, m):
    iv = [(int(i.left), int(i.right)) for i in out["ilocs"]]
    return iv


def make_capa(n, p, m, M, mode="c03"):
    cs, ps = z3.Real("cscale"), z3.Real("pscale")
    base = [cs >= 0, ps >= 0] + table_assumptions(n, p, m, min(M, n))
    X = dummy_X(n, p)
    info = dict(det="CAPA", n=n, p=p, m=m, M=M)

    def run(eng, acc):
        from skchange.anomaly_detectors import CAPA
        from .prelude import prelude
        prelude("CAPA", n, p, m, M)
        try:
            det = CAPA(TableSaving(p=p), TableSaving(p=p, tag="P"), collective_penalty_scale=SymReal(cs),
                       point_penalty_scale=SymReal(ps), min_segment_length=m, max_segment_length=M)
            det.fit(X)
            out = det.predict(X)
            scores = [rv(v) for v in det.scores.values]
            ca, pa = rv(det.collective_penalty_), rv(det.point_penalty_)
        except Exception as ex:
            acc.concrete("runs_to_completion", False, dict(info, exception=f"{type(ex).__name__}: {ex}"[:200]), eng=eng)
            return
        acc.concrete("runs_to_completion", True)
        ok = check_anomalies(acc, out, n, info, "CAPA", eng=eng, min_len=m, max_len=M, point_ok=True)
        if mode == "c04":
            return
        anoms = _split_output(out, m)
        acc.add_to("outputs", tuple(anoms))
        orc = Oracle(n, p, m, min(M, n), ca, [], pa, [])
        _optimality(eng, acc, orc, scores, anoms, n, m, M, info, ok)
        _witness(eng, acc, info, anoms, scores)
        acc.sample(dict(info, anomalies=anoms, final=str(z3.simplify(scores[-1]))[:160],
                        path_condition=[str(c).replace("\n", " ")[:140] for c in eng.pc[: eng.synced][:6]]))
        # O3: ignore_point_anomalies drops exactly the point anomalies (product run, same path)
        det2 = CAPA(TableSaving(p=p), TableSaving(p=p, tag="P"), collective_penalty_scale=SymReal(cs),
                    point_penalty_scale=SymReal(ps), min_segment_length=m, max_segment_length=M,
                    ignore_point_anomalies=True)
        out2 = det2.fit(X).predict(X)
        an2 = _split_output(out2, m)
        acc.concrete("O3.ignore_point_anomalies", an2 == [a for a in anoms if a[1] - a[0] != 1],
                     dict(info, anomalies=anoms, without_points=an2), eng=eng)

    return Harness(run, base, name=f"capa {info}")


def _optimality(eng, acc, orc, scores, anoms, n, m, M, info, wellformed):
    acc.concrete("O1.scores_length", len(scores) == n, info, eng=eng)
    for t in range(min(n, len(scores))):
        lb, att = orc.is_optimum(scores[t], t + 1)
        acc.oblige(eng, "O1.score_is_upper_bound_of_all_anomaly_sets", lb, dict(info, t=t, anomalies=anoms))
        acc.oblige(eng, "O1.score_is_attained", att, dict(info, t=t, anomalies=anoms))
    if wellformed:
        A = [("p" if e - s == 1 else "c", s, e) for s, e in anoms]
        if all(a in orc.v for a in A):
            acc.oblige(eng, "O2.final_score_of_returned_anomalies", orc.equals_total(scores[-1], A), dict(info, anomalies=anoms))
        else:
            acc.concrete("O2.returned_anomalies_admissible", False, dict(info, anomalies=anoms), eng=eng)


def _mv_penalty(alpha, betas):
    def f(n, p, n_params_per_variable=1, scale=1.0):
        return SymReal(alpha), np.array([SymReal(b) for b in betas], dtype=object)
    return f


def _num_penalty(alpha, betas):
    def f(n, p, n_params_per_variable=1, scale=1.0):
        return float(alpha), np.array([float(b) for b in betas])
    return f


def _regime(betas, reg):
    """Constraints selecting one structural case of penalise_savings (so that the
    cases are explored by separate jobs instead of multiplying inside one)."""
    gap = z3.RealVal(Fraction(1e-8))
    if reg == "dense":
        return [b == 0 for b in betas]
    if reg == "sparse":
        return [betas[0] >= gap] + [b == betas[0] for b in betas[1:]]
    if reg == "general":
        return [b >= gap for b in betas] + ([z3.Or([b != betas[0] for b in betas[1:]])] if len(betas) > 1 else [])
    if reg == "mixed":      # some components free: zero and positive penalties mixed
        return [betas[0] == 0] + [b >= gap for b in betas[1:]]
    raise ValueError(reg)


def mv_base(n, p, m, M, creg="general", preg="sparse"):
    ca, pa = z3.Real("calpha"), z3.Real("palpha")
    cb = [z3.Real(f"cbeta_{k}") for k in range(p)]
    pb = [z3.Real(f"pbeta_{k}") for k in range(p)]
    base = [ca >= 0, pa >= 0, z3.Real("cscale") >= 0]
    base += _regime(cb, creg) + _regime(pb, preg)
    base += table_assumptions(n, p, m, min(M, n))
    return ca, cb, pa, pb, base


class TagSaving(TableSaving):
    """Table saving whose columns are identified by the *data*: column j of the data it is fitted on holds the tag of
    the variable it stands for (tag_X), and the saving of that column is the table entry of that tag.  A detector that
    reorders, drops or relabels columns between the caller's frame and the scorer is then visible in the terms."""

    def _fit(self, X, y=None):
        self.tags_ = [int(v) for v in np.asarray(X, dtype=float)[0]]
        return super()._fit(X, y)

    def _evaluate(self, cuts):
        out = super()._evaluate(cuts)
        if self.values is None:
            for i in range(out.shape[0]):
                key = "_".join(str(int(c)) for c in np.asarray(cuts)[i])
                for j in range(out.shape[1]):
                    out[i, j] = SymReal(z3.Real(f"{self.tag}_{key}_{self.tags_[j]}"))
            return out
        res = np.empty(out.shape, dtype=float)
        for i in range(out.shape[0]):
            key = "_".join(str(int(c)) for c in np.asarray(cuts)[i])
            for j in range(out.shape[1]):
                res[i, j] = float(self.values.get(f"{self.tag}_{key}_{self.tags_[j]}", self.default))
        return res


def tag_X(n, p, order=None):
    """frame with string labels whose column `v<t>` holds the constant t; `order`: the tags from left to right"""
    order = list(range(p)) if order is None else list(order)
    return pd.DataFrame(np.tile(np.array(order, dtype=float), (n, 1)), columns=[f"v{t}" for t in order])


def make_mvcapa(n, p, m, M, mode="c03", creg="general", preg="sparse", colperm=None):
    """colperm (C16): the detector is fitted on the frame with columns v0..v{p-1} and asked to predict on a frame that
    holds the same labelled columns in the order colperm; everything reported (icolumns, dense labels) must refer to the
    column positions of the frame that was *passed to predict*."""
    ca, cb, pa, pb, base = mv_base(n, p, m, M, creg, preg)
    cscale = z3.Real("cscale")
    X = dummy_X(n, p) if colperm is None else tag_X(n, p, colperm)
    Xfit = X if colperm is None else tag_X(n, p)
    Sav = TableSaving if colperm is None else TagSaving
    info = dict(det="MVCAPA", n=n, p=p, m=m, M=M, creg=creg, preg=preg)
    if colperm is not None:
        info["colperm"] = list(colperm)

    def run(eng, acc):
        from skchange.anomaly_detectors import MVCAPA
        from .prelude import prelude
        prelude("MVCAPA", n, p, m, M)
        try:
            det = MVCAPA(Sav(p=p), Sav(p=p, tag="P"), collective_penalty=_mv_penalty(ca, cb),
                         collective_penalty_scale=SymReal(cscale), point_penalty=_mv_penalty(pa, pb),
                         min_segment_length=m, max_segment_length=M)
            det.fit(Xfit)
            try:
                out = det.predict(X)
            except ValueError:
                if colperm is None:
                    raise
                # a detector may refuse a frame whose labelled columns are ordered differently from the training frame
                # (feature-name validation): then nothing is reported and nothing is claimed
                acc.inc("relabelled_frame_rejected_with_ValueError")
                acc.concrete("relabelled.rejected_or_answered", True)
                return
            scores = [rv(v) for v in det.scores.values]
        except Exception as ex:
            acc.concrete("runs_to_completion", False, dict(info, exception=f"{type(ex).__name__}: {ex}"[:200]), eng=eng)
            return
        acc.concrete("runs_to_completion", True)
        ok = check_anomalies(acc, out, n, info, "MVCAPA", eng=eng, min_len=m, max_len=M, point_ok=True, p=p)
        if mode == "c04":
            return
        anoms = _split_output(out, m)
        cols = [[int(c) for c in np.asarray(v).ravel()] for v in out["icolumns"]]
        acc.add_to("outputs", (tuple(anoms), tuple(map(tuple, cols))))
        if mode == "c16":
            from .c16 import affected_obligations
            affected_obligations(eng, acc, det, out, X, anoms, cols, n, p, m, info, pa, pb, cscale, colmap=colperm)
            _witness(eng, acc, info, anoms, scores, cols=cols)
            return
        orc = Oracle(n, p, m, min(M, n), ca, cb, pa, pb)
        _optimality(eng, acc, orc, scores, anoms, n, m, M, info, ok)
        _witness(eng, acc, info, anoms, scores)
        acc.sample(dict(info, anomalies=anoms, icolumns=cols, final=str(z3.simplify(scores[-1]))[:160]))
        det2 = MVCAPA(TableSaving(p=p), TableSaving(p=p, tag="P"), collective_penalty=_mv_penalty(ca, cb),
                      collective_penalty_scale=SymReal(cscale), point_penalty=_mv_penalty(pa, pb),
                      min_segment_length=m, max_segment_length=M, ignore_point_anomalies=True)
        out2 = det2.fit(X).predict(X)
        an2 = _split_output(out2, m)
        acc.concrete("O3.ignore_point_anomalies", an2 == [a for a in anoms if a[1] - a[0] != 1],
                     dict(info, anomalies=anoms, without_points=an2), eng=eng)

    return Harness(run, base, name=f"mvcapa {info}")


def make_mvcapa_named(n, p, m, M, cpen="combined", ppen="sparse", mode="c03"):
    """MVCAPA with the *named* penalty families and symbolic scales: checks run_mvcapa's plumbing
    (which family, which scale, which parameter count goes where).  The oracle's penalties come from
    calling the family functions directly (their formulas are the subject of C15)."""
    cs, ps = z3.Real("cscale"), z3.Real("pscale")
    lo = z3.RealVal(Fraction(1, 1000))
    base = [z3.Or(cs == 0, cs >= lo), z3.Or(ps == 0, ps >= lo)] + table_assumptions(n, p, m, min(M, n))
    X = dummy_X(n, p)
    info = dict(det="MVCAPA", n=n, p=p, m=m, M=M, cpen=cpen, ppen=ppen)

    def run(eng, acc):
        from skchange.anomaly_detectors import MVCAPA
        from skchange.anomaly_detectors.mvcapa import capa_penalty_factory
        from .prelude import prelude
        prelude("MVCAPA", n, p, m, M)
        try:
            det = MVCAPA(TableSaving(p=p), TableSaving(p=p, tag="P"), collective_penalty=cpen, collective_penalty_scale=SymReal(cs),
                         point_penalty=ppen, point_penalty_scale=SymReal(ps), min_segment_length=m, max_segment_length=M)
            det.fit(X)
            out = det.predict(X)
            scores = [rv(v) for v in det.scores.values]
            ca, cb = capa_penalty_factory(cpen)(n, p, 1, scale=SymReal(cs))
            pa, pb = capa_penalty_factory(ppen)(n, p, 1, scale=SymReal(ps))
        except Exception as ex:
            acc.concrete("runs_to_completion", False, dict(info, exception=f"{type(ex).__name__}: {ex}"[:200]), eng=eng)
            return
        acc.concrete("runs_to_completion", True)
        ok = check_anomalies(acc, out, n, info, "MVCAPA", eng=eng, min_len=m, max_len=M, point_ok=True, p=p)
        if mode == "c04":
            return
        anoms = _split_output(out, m)
        orc = Oracle(n, p, m, min(M, n), rv(ca), [rv(b) for b in np.asarray(cb).ravel()], rv(pa), [rv(b) for b in np.asarray(pb).ravel()])
        _optimality(eng, acc, orc, scores, anoms, n, m, M, info, ok)
        acc.sample(dict(info, anomalies=anoms))

    return Harness(run, base, name=f"mvcapa named {info}")


# ----------------------------------------------------------------------------------
# native runs (witnesses and replays)
# ----------------------------------------------------------------------------------

def native_run(info, env, ignore_points=False):
    from skchange.anomaly_detectors import CAPA, MVCAPA
    n, p, m, M = info["n"], info["p"], info["m"], info["M"]
    S = {k: v for k, v in env.items() if k.startswith("S_")}
    P = {k: v for k, v in env.items() if k.startswith("P_")}
    X = dummy_X(n, p)
    from .prelude import prelude
    prelude(info["det"], n, p, m, M)
    with proxy.native():
        if info["det"] == "CAPA":
            det = CAPA(TableSaving(p=p, values=S), TableSaving(p=p, tag="P", values=P),
                       collective_penalty_scale=float(env.get("cscale", 0.0)), point_penalty_scale=float(env.get("pscale", 0.0)),
                       min_segment_length=m, max_segment_length=M, ignore_point_anomalies=ignore_points)
            det.fit(X)
            out = det.predict(X)
            pens = (float(det.collective_penalty_), [], float(det.point_penalty_), [])
        elif "cpen" in info:
            from skchange.anomaly_detectors.mvcapa import capa_penalty_factory
            cs_, ps_ = float(env.get("cscale", 0.0)), float(env.get("pscale", 0.0))
            det = MVCAPA(TableSaving(p=p, values=S), TableSaving(p=p, tag="P", values=P), collective_penalty=info["cpen"], collective_penalty_scale=cs_,
                         point_penalty=info["ppen"], point_penalty_scale=ps_, min_segment_length=m, max_segment_length=M, ignore_point_anomalies=ignore_points)
            det.fit(X)
            out = det.predict(X)
            ca, cb = capa_penalty_factory(info["cpen"])(n, p, 1, scale=cs_)
            pa, pb = capa_penalty_factory(info["ppen"])(n, p, 1, scale=ps_)
            pens = (float(ca), [float(b) for b in cb], float(pa), [float(b) for b in pb])
        else:
            cb = [env.get(f"cbeta_{k}", 0.0) for k in range(p)]
            pb = [env.get(f"pbeta_{k}", 0.0) for k in range(p)]
            if info.get("colperm") is not None:
                det = MVCAPA(TagSaving(p=p, values=S), TagSaving(p=p, tag="P", values=P),
                             collective_penalty=_num_penalty(env.get("calpha", 0.0), cb), collective_penalty_scale=float(env.get("cscale", 0.0)),
                             point_penalty=_num_penalty(env.get("palpha", 0.0), pb),
                             min_segment_length=m, max_segment_length=M, ignore_point_anomalies=ignore_points)
                det.fit(tag_X(n, p))
                out = det.predict(tag_X(n, p, info["colperm"]))
                return out, np.asarray(det.scores.values, dtype=float), (float(env.get("calpha", 0.0)), cb, float(env.get("palpha", 0.0)), pb)
            det = MVCAPA(TableSaving(p=p, values=S), TableSaving(p=p, tag="P", values=P),
                         collective_penalty=_num_penalty(env.get("calpha", 0.0), cb),
                         collective_penalty_scale=float(env.get("cscale", 0.0)),
                         point_penalty=_num_penalty(env.get("palpha", 0.0), pb),
                         min_segment_length=m, max_segment_length=M, ignore_point_anomalies=ignore_points)
            det.fit(X)
            out = det.predict(X)
            pens = (float(env.get("calpha", 0.0)), cb, float(env.get("palpha", 0.0)), pb)
        return out, np.asarray(det.scores.values, dtype=float), pens


def _witness(eng, acc, info, anoms, scores, cap=40, cols=None):
    if acc.total("witness_tried") >= cap:
        return
    acc.inc("witness_tried")
    model, _ = robust_model(eng)
    if model is None:
        acc.inc("witness_tie_only_path")
        return
    env = model_env(model)
    try:
        out, sc, _ = native_run(info, env)
    except Exception as ex:
        acc.error(f"C03 witness: native run raised {type(ex).__name__}: {ex}")
        return
    fe = FloatEval(env, eng)
    got = [(int(i.left), int(i.right)) for i in out["ilocs"]]
    ok = got == anoms and all(close(float(a), fe(b), 1e-7, 1e-7) for a, b in zip(sc, scores))
    if ok and cols is not None:
        ok = [[int(c) for c in np.asarray(v).ravel()] for v in out["icolumns"]] == cols
    if ok:
        acc.inc("witness_ok")
    else:
        acc.error(f"C03 witness mismatch {info}: symbolic {anoms} {cols} native {got}; env {env}")


def plain_penalised(vals, alpha, betas):
    best = None
    srt = sorted(vals, reverse=True)
    for k in range(1, len(vals) + 1):
        v = sum(srt[:k]) - alpha - sum(betas[:k])
        best = v if best is None or v > best else best
    return best


def brute_force(info, env, pens, t=None):
    n, p, m, M = info["n"], info["p"], info["m"], min(info["M"], info["n"])
    t = n if t is None else t
    ca, cb, pa, pb = pens
    pen = {}
    for (s, e) in collective_candidates(n, m, M):
        pen[("c", s, e)] = plain_penalised([env.get(f"S_{s}_{e}_{j}", 0.0) for j in range(p)], ca, cb)
    for u in range(n):
        pen[("p", u, u + 1)] = plain_penalised([env.get(f"P_{u}_{u + 1}_{j}", 0.0) for j in range(p)], pa, pb)
    best, arg = None, None
    for A in anomaly_sets(t, m, M):
        tot = sum(pen[a] for a in A)
        if best is None or tot > best:
            best, arg = tot, A
    return best, arg, pen


def jobs(tier, mode="c03"):
    Mod = "harness.c03"
    out = []
    if tier == "quick":
        capa = [(2, 1, 2, 2), (3, 1, 2, 3), (4, 1, 2, 2), (4, 1, 2, 3), (4, 1, 2, 1000), (3, 2, 2, 3), (4, 2, 2, 2),
                (5, 1, 2, 2), (5, 1, 3, 3)]
        mv = [(2, 2, 2, 2, "general", "sparse"), (2, 2, 2, 2, "sparse", "general"), (2, 2, 2, 2, "mixed", "dense"),
              (3, 2, 2, 3, "dense", "dense")]
    else:
        # sized from measurements (16 cores): every job below has <= 13 000 paths.  Measured and left out: CAPA n=5, m=2
        # with M in {3, 1000}, n=6 (m=3) and MVCAPA n=3 in the general regimes -- each of them alone exceeds 15 min
        # (the repaired DP keeps more starts alive; the explicit oracle has 89 / 233 anomaly sets per prefix at n=5 / 6)
        capa = ([(n, 1, 2, M) for n in range(2, 5) for M in (2, 3, 1000)] + [(5, 1, 2, 2)]
                + [(n, 2, 2, M) for n in range(2, 5) for M in (2, 1000)]
                + [(n, 1, 3, M) for n in range(3, 6) for M in (3, 1000)])
        regs = [("general", "sparse"), ("sparse", "general"), ("mixed", "dense"), ("dense", "dense"), ("sparse", "sparse"), ("general", "general")]
        mv = [(2, 2, 2, 2, a, b) for a, b in regs] + [(3, 2, 2, 3, a, b) for a, b in (("dense", "dense"), ("sparse", "sparse"))]
    for (n, p, m, M) in capa:
        out.append(Job(Mod, "make_capa", dict(n=n, p=p, m=m, M=M, mode=mode), split=n >= 4))
    for (n, p, m, M, creg, preg) in mv:
        out.append(Job(Mod, "make_mvcapa", dict(n=n, p=p, m=m, M=M, mode=mode, creg=creg, preg=preg), split=True))
    named = [(2, 2, "combined", "sparse")] if tier == "quick" else [(2, 2, "combined", "sparse"), (2, 2, "dense", "dense"), (2, 2, "intermediate", "combined")]
    for (n, p, cpen, ppen) in named:
        out.append(Job(Mod, "make_mvcapa_named", dict(n=n, p=p, m=2, M=1000, cpen=cpen, ppen=ppen, mode=mode), split=True))
    return out


def extra(tier, seed):
    """E2: CrossHair contracts of the pure-Python helpers this property rests on (thorough tier)."""
    if tier != "thorough":
        return None
    from .e2 import run_specs
    return run_specs(["get_anomalies"], timeout=90)


def replay(cx):
    from .e2 import replay_cx
    _e2 = replay_cx(cx)
    if _e2 is not None:
        return _e2
    info = cx.get("info") or {}
    model = cx.get("model") or {}
    ob = cx["ob"]
    env = {}
    for k, v in model.items():
        try:
            env[k] = float(Fraction(v))
        except Exception:
            pass
    n, p, m, M = info["n"], info["p"], info["m"], info["M"]
    det = info["det"]
    key = f"{ob}|{det}|p={'1' if p == 1 else '>1'}"
    try:
        out, sc, pens = native_run(info, env)
    except Exception as ex:
        return dict(reproduced=True, key=f"runs_to_completion|{det}|{type(ex).__name__}",
                    what=f"{det}(min_segment_length={m}, max_segment_length={M}) on n={n}, p={p} raised {type(ex).__name__}: {str(ex)[:200]} [env {env}]")
    bad = problems_anomalies(out, n, min_len=m, max_len=M, point_ok=True, p=p if det == "MVCAPA" else None)
    anoms = [(int(i.left), int(i.right)) for i in out["ilocs"]]
    tol = 1e-9
    for t in range(n):
        best, arg, pen = brute_force(info, env, pens, t + 1)
        if abs(sc[t] - best) > tol * (1 + abs(best)):
            bad.append(f"score[{t}]={sc[t]:.6g} but the optimal total penalised saving of the prefix is {best:.6g} (anomaly set {arg})")
            break
    best, arg, pen = brute_force(info, env, pens)
    A = [("p" if e - s == 1 else "c", s, e) for s, e in anoms]
    if all(a in pen for a in A):
        tot = sum(pen[a] for a in A)
        if abs(tot - sc[-1]) > tol * (1 + abs(tot)):
            bad.append(f"returned anomalies {anoms} have total penalised saving {tot:.6g}, final score is {sc[-1]:.6g}, optimum {best:.6g} at {arg}")
    if "without_points" in info:
        out2, _, _ = native_run(info, env, ignore_points=True)
        an2 = [(int(i.left), int(i.right)) for i in out2["ilocs"]]
        if an2 != [a for a in anoms if a[1] - a[0] != 1]:
            bad.append(f"ignore_point_anomalies=True gives {an2}, full output {anoms}")
    return dict(reproduced=bool(bad), key=key, what=(f"{det}(m={m}, M={M}) n={n} p={p}: " + "; ".join(bad[:2]) + f" [penalties {pens}; tables { {k: v for k, v in env.items() if k[0] in 'SP'} }]")[:900])
