"""Entry point: python -m harness.main <property id> --tier quick|thorough [--replay f]"""
import argparse
import importlib
import json
import os
import sys
import time

sys.setrecursionlimit(20000)


def main():
    ap = argparse.ArgumentParser()
    ap.add_argument("prop")
    ap.add_argument("--tier", default=os.environ.get("VERIF_TIER", "quick"), choices=["quick", "thorough"])
    ap.add_argument("--replay")
    ap.add_argument("--only", help="substring filter on job labels (debugging)")
    ap.add_argument("--progress", action="store_true")
    a = ap.parse_args()
    seed = int(os.environ.get("VERIF_SEED", "0"))
    t0 = time.time()
    if a.tier == "thorough":
        os.environ.setdefault("VERIF_XCHECK", "1")
    # wall budget of the exploration: ~10x the slowest check of the tier on the unchanged tree (quick <= 95 s, thorough <= 15 min)
    os.environ.setdefault("VERIF_WALL_BUDGET", "600" if a.tier == "quick" else "10800")
    from symnp import proxy, drive, report
    mod = importlib.import_module(f"harness.{a.prop.lower()}")
    proxy.install()
    if a.replay:
        with open(a.replay) as f:
            blob = json.load(f)
        rep = mod.replay(dict(ob=blob["obligation"], info=blob.get("info"), model=blob.get("model")))
        print(json.dumps(drive.jsonable(rep), indent=1))
        if rep.get("reproduced"):
            print(f"VIOLATION property={mod.PROPERTY} replay={os.path.abspath(a.replay)}")
            return 1
        return 0
    jobs = mod.jobs(a.tier)
    if a.only:
        jobs = [j for j in jobs if a.only in j.label]
    results, wall = drive.run_jobs(jobs, progress=a.progress) if jobs else ({}, 0.0)
    extra = None
    if hasattr(mod, "extra") and not a.only:
        extra = mod.extra(a.tier, seed)
    return report.finalize(mod, a.tier, seed, results, wall, extra, t_start=t0)


if __name__ == "__main__":
    sys.exit(main())
