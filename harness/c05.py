"""C05 -- dense labels and sparse detections describe the same events for any index.

The detection set is a tuple of symbolic integers constrained only by the validity
predicate of the sparse format; the solver enumerates every solution (the integers are
case-split where they reach pandas), so the verdict is bounded-exhaustive over a
solver-enumerated finite space -- no symbolic reasoning survives the pandas boundary,
and none is claimed."""
from __future__ import annotations

import itertools
from fractions import Fraction

import numpy as np
import pandas as pd
import z3

from symnp import proxy
from symnp.core import Engine, SymInt
from symnp.drive import Acc, Harness, Job

from skchange.anomaly_detectors.base import CollectiveAnomalyDetector, SubsetCollectiveAnomalyDetector
from skchange.change_detectors.base import ChangeDetector

PROPERTY = "C05"
FUNCTIONS = [
    "skchange.base.base_detector:BaseDetector.transform",
    "skchange.change_detectors.base:ChangeDetector.sparse_to_dense",
    "skchange.change_detectors.base:ChangeDetector.dense_to_sparse",
    "skchange.change_detectors.base:ChangeDetector._format_sparse_output",
    "skchange.anomaly_detectors.base:CollectiveAnomalyDetector.sparse_to_dense",
    "skchange.anomaly_detectors.base:CollectiveAnomalyDetector.dense_to_sparse",
    "skchange.anomaly_detectors.base:CollectiveAnomalyDetector._format_sparse_output",
    "skchange.anomaly_detectors.base:SubsetCollectiveAnomalyDetector.sparse_to_dense",
    "skchange.anomaly_detectors.base:SubsetCollectiveAnomalyDetector.dense_to_sparse",
    "skchange.anomaly_detectors.base:SubsetCollectiveAnomalyDetector._format_sparse_output",
]
BOUNDS = {
    "quick": "n<=5, K<=2 events (K=3 for changepoints), p<=2 columns for the subset format; index kinds: RangeIndex(0,n), "
             "RangeIndex with start in {-3,5} and step in {1,2}, DatetimeIndex, PeriodIndex; string column labels; "
             "transform through stub detectors for DataFrame / ndarray / Series input",
    "thorough": "changepoints n<=9, K<=4; anomalies n<=8, K<=3; subset format n<=6, K<=3, p<=3",
}
STUBS = ["stub detectors returning the given (valid) detections, so that transform is exercised for every detection set"]
ASSUMPTIONS = ["valid sparse outputs: changepoints 0 < c1 < ... < cK < n; anomalies 0 <= s_i < e_i <= s_{i+1}, e_K <= n "
               "(adjacent, length-1 and end-touching cases included); non-empty column subsets",
               "exhaustive over the solver-enumerated space; pandas itself runs concretely"]
OUTSIDE = ["n > 7, K > 3", "index types other than RangeIndex / DatetimeIndex / PeriodIndex", "MultiIndex"]


def index_kinds(n):
    return {
        "range0": pd.RangeIndex(0, n),
        "range-3": pd.RangeIndex(-3, -3 + n),
        "range5": pd.RangeIndex(5, 5 + n),
        "range5step2": pd.RangeIndex(5, 5 + 2 * n, 2),
        "range-3step2": pd.RangeIndex(-3, -3 + 2 * n, 2),
        "datetime": pd.date_range("2020-01-01", periods=n, freq="D"),
        "period": pd.period_range("2020-01", periods=n, freq="M"),
    }


class StubChange(ChangeDetector):
    _tags = {"capability:missing_values": False, "capability:multivariate": True, "fit_is_empty": False}

    def __init__(self, cpts=()):
        self.cpts = cpts
        super().__init__()

    def _fit(self, X, y=None):
        return self

    def _predict(self, X):
        return ChangeDetector._format_sparse_output(list(self.cpts))


class StubCollective(CollectiveAnomalyDetector):
    _tags = {"capability:missing_values": False, "capability:multivariate": True, "fit_is_empty": False}

    def __init__(self, anomalies=()):
        self.anomalies = anomalies
        super().__init__()

    def _fit(self, X, y=None):
        return self

    def _predict(self, X):
        return CollectiveAnomalyDetector._format_sparse_output(list(self.anomalies))


class StubSubset(SubsetCollectiveAnomalyDetector):
    _tags = {"capability:missing_values": False, "capability:multivariate": True, "fit_is_empty": False}

    def __init__(self, anomalies=()):
        self.anomalies = anomalies
        super().__init__()

    def _fit(self, X, y=None):
        return self

    def _predict(self, X):
        return SubsetCollectiveAnomalyDetector._format_sparse_output(list(self.anomalies))


def _same_index(a, b):
    return len(a) == len(b) and type(a) is type(b) and a.equals(b)


def want_change(cpts, n):
    return [sum(1 for c in cpts if c <= i) for i in range(n)]


def want_collective(anoms, n):
    out = [0] * n
    for lab, (s, e) in enumerate(anoms, start=1):
        for i in range(s, e):
            out[i] = lab
    return out


def want_subset(anoms, n, p):
    out = np.zeros((n, p), dtype=int)
    for lab, (s, e, cols) in enumerate(anoms, start=1):
        for c in cols:
            out[s:e, c] = lab
    return out


def check_change(acc, eng, cpts, n, info):
    y = ChangeDetector._format_sparse_output(list(cpts))
    for kind, idx in index_kinds(n).items():
        inf = dict(info, cpts=list(cpts), index=kind)
        try:
            dense = ChangeDetector.sparse_to_dense(y, idx)
            ok = _same_index(dense.index, idx) and [int(v) for v in dense["labels"]] == want_change(cpts, n)
            acc.concrete("change.sparse_to_dense", ok, dict(inf, got=[int(v) for v in dense["labels"]]), eng=eng)
            back = ChangeDetector.dense_to_sparse(dense)
            acc.concrete("change.dense_to_sparse_roundtrip", [int(v) for v in back["ilocs"]] == list(cpts), dict(inf, got=[int(v) for v in back["ilocs"]]), eng=eng)
            for form in ("frame", "ndarray", "series"):
                X = pd.DataFrame(np.zeros((n, 1)), index=idx)
                Xin = X if form == "frame" else (X.values if form == "ndarray" else X.iloc[:, 0])
                if form == "ndarray" and kind != "range0":
                    continue
                tr = StubChange(cpts=tuple(cpts)).fit(Xin).transform(Xin)
                ok = _same_index(tr.index, idx if form != "ndarray" else pd.RangeIndex(n)) and [int(v) for v in tr["labels"]] == want_change(cpts, n)
                acc.concrete("change.transform", ok, dict(inf, form=form, got=[int(v) for v in tr["labels"]]), eng=eng)
        except Exception as ex:
            acc.concrete("change.no_exception", False, dict(inf, exception=f"{type(ex).__name__}: {ex}"[:160]), eng=eng)


def check_collective(acc, eng, anoms, n, info):
    y = CollectiveAnomalyDetector._format_sparse_output(list(anoms))
    for kind, idx in index_kinds(n).items():
        inf = dict(info, anomalies=[list(a) for a in anoms], index=kind)
        try:
            dense = CollectiveAnomalyDetector.sparse_to_dense(y, idx)
            got = [int(v) for v in dense["labels"]]
            acc.concrete("collective.sparse_to_dense", _same_index(dense.index, idx) and got == want_collective(anoms, n), dict(inf, got=got), eng=eng)
            back = CollectiveAnomalyDetector.dense_to_sparse(dense)
            gb = [(int(i.left), int(i.right)) for i in back["ilocs"]]
            acc.concrete("collective.dense_to_sparse_roundtrip", gb == [tuple(a) for a in anoms] and [int(v) for v in back["labels"]] == list(range(1, len(anoms) + 1)),
                         dict(inf, got=gb), eng=eng)
            X = pd.DataFrame(np.zeros((n, 1)), index=idx)
            tr = StubCollective(anomalies=tuple(anoms)).fit(X).transform(X)
            gt = [int(v) for v in tr["labels"]]
            acc.concrete("collective.transform", _same_index(tr.index, idx) and gt == want_collective(anoms, n), dict(inf, got=gt), eng=eng)
        except Exception as ex:
            acc.concrete("collective.no_exception", False, dict(inf, exception=f"{type(ex).__name__}: {ex}"[:160]), eng=eng)


def check_subset(acc, eng, anoms, n, p, info):
    y = SubsetCollectiveAnomalyDetector._format_sparse_output([(s, e, list(c)) for s, e, c in anoms])
    want = want_subset(anoms, n, p)
    for kind, idx in index_kinds(n).items():
        for cols in (pd.RangeIndex(p), pd.Index([f"v{j}" for j in range(p)])):
            inf = dict(info, anomalies=[[s, e, list(c)] for s, e, c in anoms], index=kind, columns=str(list(cols)))
            try:
                dense = SubsetCollectiveAnomalyDetector.sparse_to_dense(y, idx, cols)
                got = np.asarray(dense.values)
                acc.concrete("subset.sparse_to_dense", _same_index(dense.index, idx) and got.shape == want.shape and bool((got == want).all())
                             and list(dense.columns) == [f"labels_{c}" for c in cols], dict(inf, got=got.tolist()), eng=eng)
                back = SubsetCollectiveAnomalyDetector.dense_to_sparse(dense)
                gb = [(int(i.left), int(i.right), sorted(int(c) for c in cc)) for i, cc in zip(back["ilocs"], back["icolumns"])]
                acc.concrete("subset.dense_to_sparse_roundtrip", gb == [(s, e, sorted(c)) for s, e, c in anoms], dict(inf, got=gb), eng=eng)
                X = pd.DataFrame(np.zeros((n, p)), index=idx, columns=cols)
                tr = StubSubset(anomalies=tuple((s, e, tuple(c)) for s, e, c in anoms)).fit(X).transform(X)
                gt = np.asarray(tr.values)
                acc.concrete("subset.transform", _same_index(tr.index, idx) and gt.shape == want.shape and bool((gt == want).all()), dict(inf, got=gt.tolist()), eng=eng)
            except Exception as ex:
                acc.concrete("subset.no_exception", False, dict(inf, exception=f"{type(ex).__name__}: {ex}"[:160]), eng=eng)


def make_change(n, K):
    cs = [z3.Int(f"c{i}") for i in range(K)]
    base = [c > 0 for c in cs] + [c < n for c in cs] + [a < b for a, b in zip(cs[:-1], cs[1:])]
    info = dict(fmt="change", n=n, K=K)

    def run(eng, acc):
        cpts = [int(SymInt(c)) for c in cs]
        check_change(acc, eng, cpts, n, info)
        acc.inc("witness_ok")        # the case ran natively through the real pandas-based converters
        acc.add_to("cases", tuple(cpts))
        acc.sample(dict(info, cpts=cpts))

    return Harness(run, base, name=f"change {info}")


def _anom_base(n, K):
    ss = [z3.Int(f"s{i}") for i in range(K)]
    es = [z3.Int(f"e{i}") for i in range(K)]
    base = [s >= 0 for s in ss] + [e <= n for e in es] + [s < e for s, e in zip(ss, es)] + [es[i] <= ss[i + 1] for i in range(K - 1)]
    return ss, es, base


def make_collective(n, K):
    ss, es, base = _anom_base(n, K)
    info = dict(fmt="collective", n=n, K=K)

    def run(eng, acc):
        anoms = [(int(SymInt(s)), int(SymInt(e))) for s, e in zip(ss, es)]
        check_collective(acc, eng, anoms, n, info)
        acc.inc("witness_ok")
        acc.add_to("cases", tuple(anoms))
        acc.sample(dict(info, anomalies=anoms))

    return Harness(run, base, name=f"collective {info}")


def make_subset(n, K, p):
    ss, es, base = _anom_base(n, K)
    ms = [z3.Int(f"mask{i}") for i in range(K)]
    base = base + [z3.And(m >= 1, m <= 2 ** p - 1) for m in ms]
    info = dict(fmt="subset", n=n, K=K, p=p)

    def run(eng, acc):
        anoms = []
        for s, e, m in zip(ss, es, ms):
            mask = int(SymInt(m))
            anoms.append((int(SymInt(s)), int(SymInt(e)), tuple(j for j in range(p) if mask >> j & 1)))
        check_subset(acc, eng, anoms, n, p, info)
        acc.inc("witness_ok")
        acc.add_to("cases", tuple(anoms))
        acc.sample(dict(info, anomalies=[list(a) for a in anoms]))

    return Harness(run, base, name=f"subset {info}")


def make_wiring():
    """transform is the one in BaseDetector and the converters are those of the three
    format classes, for every concrete detector."""
    def run(eng, acc):
        from skchange.anomaly_detectors import CAPA, MVCAPA, CircularBinarySegmentation, StatThresholdAnomaliser
        from skchange.base import BaseDetector
        from skchange.change_detectors import PELT, MovingWindow, SeededBinarySegmentation
        fam = {PELT: ChangeDetector, MovingWindow: ChangeDetector, SeededBinarySegmentation: ChangeDetector,
               CAPA: CollectiveAnomalyDetector, CircularBinarySegmentation: CollectiveAnomalyDetector,
               StatThresholdAnomaliser: CollectiveAnomalyDetector, MVCAPA: SubsetCollectiveAnomalyDetector}
        for cls, base in fam.items():
            info = dict(fmt="wiring", detector=cls.__name__)
            acc.concrete("wiring.transform_is_BaseDetector_transform", cls.transform is BaseDetector.transform, info)
            acc.concrete("wiring.converters_of_format_class", cls.sparse_to_dense is base.sparse_to_dense and cls.dense_to_sparse is base.dense_to_sparse, info)
        acc.sample(dict(fmt="wiring", detectors=[c.__name__ for c in fam]))

    return Harness(run, [], name="wiring")


def jobs(tier):
    M = "harness.c05"
    out = [Job(M, "make_wiring", {})]
    if tier == "quick":
        ch = [(n, K) for n in (2, 3, 5) for K in (0, 1, 2, 3) if K < n]
        co = [(n, K) for n in (1, 3, 5) for K in (0, 1, 2) if K <= n]
        su = [(3, 1, 2), (4, 2, 2), (3, 2, 1)]
    else:
        ch = [(n, K) for n in range(2, 10) for K in range(0, 5) if K < n]
        co = [(n, K) for n in range(1, 9) for K in range(0, 4) if K <= n]
        su = [(n, K, p) for n in (3, 5, 6) for K in (1, 2, 3) for p in (1, 2, 3) if K <= n and not (K == 3 and p == 3)]
    for (n, K) in ch:
        out.append(Job(M, "make_change", dict(n=n, K=K), split=K >= 3))
    for (n, K) in co:
        out.append(Job(M, "make_collective", dict(n=n, K=K), split=K >= 2 and n >= 5))
    for (n, K, p) in su:
        out.append(Job(M, "make_subset", dict(n=n, K=K, p=p), split=K >= 2))
    return out


def replay(cx):
    info = cx.get("info") or {}
    ob = cx["ob"]
    fmt, n = info.get("fmt"), info.get("n")
    acc = Acc()
    with proxy.native():
        if fmt == "change":
            check_change(acc, None, info["cpts"], n, info)
        elif fmt == "collective":
            check_collective(acc, None, [tuple(a) for a in info["anomalies"]], n, info)
        elif fmt == "subset":
            check_subset(acc, None, [(a[0], a[1], tuple(a[2])) for a in info["anomalies"]], n, info["p"], info)
        else:
            return dict(reproduced=None, key=ob, what=str(info))
    hits = [c for c in acc.cex if c["ob"] == ob and c["info"].get("index") == info.get("index")] or [c for c in acc.cex if c["ob"] == ob] or acc.cex
    kind = info.get("index", "")
    klass = "default_index" if kind == "range0" else "non_default_index"
    adj = ""
    if fmt in ("collective", "subset"):
        an = info["anomalies"]
        adj = "|adjacent" if any(an[i][1] == an[i + 1][0] for i in range(len(an) - 1)) else ""
    if not hits:
        return dict(reproduced=False, key=f"{ob}|{klass}{adj}", what="did not reproduce")
    h = hits[0]
    return dict(reproduced=True, key=f"{ob}|{klass}{adj}",
                what=f"{fmt} format, n={n}, detections {info.get('cpts') or info.get('anomalies')}, index {h['info'].get('index')}: {ob} gives {h['info'].get('got', h['info'].get('exception'))}")
