"""C15 -- thresholds and penalties follow their documented formulas and act monotonically."""
from __future__ import annotations

import math
from fractions import Fraction

import numpy as np
import pandas as pd
import z3

from symnp import proxy
from symnp.core import Engine, SymReal, rv
from symnp.drive import Acc, Harness, Job

from .common import tsum
from .scorers import TableChangeScore, TableCost, TableLocalScore, TableSaving, values_from_model

PROPERTY = "C15"
FUNCTIONS = [
    "skchange.anomaly_detectors.mvcapa:capa_penalty",
    "skchange.anomaly_detectors.mvcapa:dense_mvcapa_penalty",
    "skchange.anomaly_detectors.mvcapa:sparse_mvcapa_penalty",
    "skchange.anomaly_detectors.mvcapa:intermediate_mvcapa_penalty",
    "skchange.anomaly_detectors.mvcapa:combined_mvcapa_penalty",
    "skchange.anomaly_detectors.mvcapa:capa_penalty_factory",
    "skchange.anomaly_detectors.capa:CAPA._get_penalty_components",
    "skchange.change_detectors.pelt:PELT._get_penalty",
    "skchange.change_detectors.pelt:PELT.get_default_penalty",
    "skchange.change_detectors.moving_window:MovingWindow._get_threshold",
    "skchange.change_detectors.moving_window:MovingWindow._tune_threshold",
    "skchange.change_detectors.seeded_binseg:SeededBinarySegmentation._get_threshold",
    "skchange.change_detectors.seeded_binseg:SeededBinarySegmentation._tune_threshold",
    "skchange.anomaly_detectors.circular_binseg:CircularBinarySegmentation._get_threshold",
    "skchange.anomaly_detectors.circular_binseg:CircularBinarySegmentation._tune_threshold",
    "skchange.change_detectors.pelt:run_pelt",
]
BOUNDS = {
    "quick": "formulas: symbolic scale >= 0, n in {2,3,5,10,40}, p in {1,2,4} (concrete: log n, sqrt, chi2 are environment "
             "numbers); MVCAPA families: n in {5,50}, p in {1,2,3,5}, k in {1,2}; tuned thresholds: table scorers n<=5; "
             "PELT monotonicity: product run on one cost table, n<=4 (m=1), n<=6 (m=2)",
    "thorough": "formulas n in [2,40] x p<=4; families n in {2,5,50,1000}, p<=6, k<=3; PELT monotonicity n<=5 (m=1), n<=6 (m=2), n=7 (m=3)",
}
STUBS = ["np.quantile: fresh value with the order-statistic contract, call arguments recorded", "table scorers",
         "scipy chi2 / np.log / np.sqrt of concrete arguments are the real library numbers (environment)"]
ASSUMPTIONS = ["scale >= 0 symbolic; documented formulas transcribed independently from the docstrings / the property text; "
               "equality up to 1e-12 relative (the two float evaluations of the constant)",
               "PELT monotonicity: split inequality assumed for the cost table (PELT is then an exact minimiser, C02)"]
OUTSIDE = ["statistical adequacy of the formulas", "n > 40 for the detector formulas"]

REL = Fraction(1, 10 ** 12)


def approx_eq(got, s, const):
    """got == s * const up to the relative rounding slack of the constant"""
    c = Fraction(float(const))
    slack = abs(c) * REL
    return z3.And(got <= s * z3.RealVal(c + slack), got >= s * z3.RealVal(c - slack))


def make_formulas(ns, ps):
    s = z3.Real("scale")
    base = [s >= 0]

    def run(eng, acc):
        from skchange.anomaly_detectors import CAPA, CircularBinarySegmentation
        from skchange.anomaly_scores import to_local_anomaly_score
        from skchange.change_detectors import PELT, MovingWindow, SeededBinarySegmentation
        from skchange.change_scores import to_change_score
        from skchange.costs import GaussianVarCost
        S = SymReal(s)

        def fitted(mk, X, inf):
            """fit must run for every scale >= 0 (incl. exactly 0); a crash on some path is a failed obligation with the
            path's model, not a crash of the harness"""
            try:
                return mk().fit(X)
            except Exception as ex:
                acc.concrete("formula.fit_runs_for_every_scale", False, dict(inf, exception=f"{type(ex).__name__}: {ex}"[:160]), eng=eng)
                return None

        for n in ns:
            for p in ps:
                X = pd.DataFrame(np.zeros((n, p)))
                info = dict(n=n, p=p, part="formula")
                ln = math.log(n)
                d = fitted(lambda: PELT(penalty_scale=S, min_segment_length=1), X, dict(info, det="PELT"))
                if d is not None:
                    acc.oblige(eng, "PELT.penalty_is_scale_times_2plogn", approx_eq(rv(d.penalty_), s, 2 * p * ln), dict(info, det="PELT"))
                d = fitted(lambda: SeededBinarySegmentation(threshold_scale=S, min_segment_length=1), X, dict(info, det="SBS"))
                if d is not None:
                    acc.oblige(eng, "SBS.threshold_is_scale_times_2p_sqrt_logn", approx_eq(rv(d.threshold_), s, 2 * p * math.sqrt(ln)), dict(info, det="SBS"))
                # the defaults are functions of the *shape of the training data*, whatever the scorer's parameter count
                d = fitted(lambda: PELT(cost=GaussianVarCost(), penalty_scale=S, min_segment_length=1), X, dict(info, det="PELT", cost="GaussianVarCost"))
                if d is not None:
                    acc.oblige(eng, "PELT.penalty_is_scale_times_2plogn", approx_eq(rv(d.penalty_), s, 2 * p * ln),
                               dict(info, det="PELT", cost="GaussianVarCost"))
                d = fitted(lambda: SeededBinarySegmentation(to_change_score(GaussianVarCost()), threshold_scale=S, min_segment_length=1), X,
                           dict(info, det="SBS", score="GaussianVarCost"))
                if d is not None:
                    acc.oblige(eng, "SBS.threshold_is_scale_times_2p_sqrt_logn", approx_eq(rv(d.threshold_), s, 2 * p * math.sqrt(ln)),
                               dict(info, det="SBS", score="GaussianVarCost"))
                d = fitted(lambda: CircularBinarySegmentation(to_local_anomaly_score(GaussianVarCost()), threshold_scale=S, min_segment_length=1,
                                                              max_interval_length=7), X, dict(info, det="CBS", M=7, score="GaussianVarCost"))
                with proxy.native():
                    want = CircularBinarySegmentation.get_default_threshold(n, p, 7)
                if d is not None:
                    acc.oblige(eng, "CBS.threshold_is_scale_times_published_default", approx_eq(rv(d.threshold_), s, want),
                               dict(info, det="CBS", M=7, score="GaussianVarCost"))
                if n >= 4:
                    d = fitted(lambda: MovingWindow(to_change_score(GaussianVarCost()), bandwidth=2, threshold_scale=S, level=0.2), X,
                               dict(info, det="MovingWindow", b=2, level=0.2, score="GaussianVarCost"))
                    with proxy.native():
                        want = MovingWindow.get_default_threshold(n, p, 2, 0.2)
                    if d is not None and math.isfinite(want):
                        acc.oblige(eng, "MovingWindow.threshold_is_scale_times_published_default",
                                   approx_eq(rv(d.threshold_), s, want), dict(info, det="MovingWindow", b=2, level=0.2, score="GaussianVarCost"))
                for k_per in (1, 2):
                    if n >= 2:
                        k = k_per * p
                        d = fitted(lambda: CAPA(TableSaving(p=p, n_params=k_per), TableSaving(p=p, tag="P"), collective_penalty_scale=S,
                                                point_penalty_scale=S, min_segment_length=2, max_segment_length=5), X, dict(info, det="CAPA", k=k))
                        if d is None:
                            continue
                        acc.oblige(eng, "CAPA.collective_penalty_is_scale_times_k_2sqrt_klogn_2logn",
                                   approx_eq(rv(d.collective_penalty_), s, k + 2 * math.sqrt(k * ln) + 2 * ln), dict(info, det="CAPA", k=k))
                        one = CAPA(TableSaving(p=p, n_params=k_per), TableSaving(p=p, tag="P"), collective_penalty_scale=1.0,
                                   point_penalty_scale=1.0, min_segment_length=2, max_segment_length=5).fit(X)
                        acc.oblige(eng, "CAPA.point_penalty_proportional_to_scale",
                                   approx_eq(rv(d.point_penalty_), s, float(one.point_penalty_)), dict(info, det="CAPA", k=k))
                for b in (1, 2, 5):
                    if n >= 2 * b and n > b:
                        for level in (0.01, 0.2):
                            d = fitted(lambda: MovingWindow(bandwidth=b, threshold_scale=S, level=level), X, dict(info, det="MovingWindow", b=b, level=level))
                            with proxy.native():
                                want = MovingWindow.get_default_threshold(n, p, b, level)
                            if d is not None and math.isfinite(want):
                                acc.oblige(eng, "MovingWindow.threshold_is_scale_times_published_default",
                                           approx_eq(rv(d.threshold_), s, want), dict(info, det="MovingWindow", b=b, level=level))
                for M in (2, 7, 1000):
                    d = fitted(lambda: CircularBinarySegmentation(threshold_scale=S, min_segment_length=1, max_interval_length=M), X, dict(info, det="CBS", M=M))
                    with proxy.native():
                        want = CircularBinarySegmentation.get_default_threshold(n, p, M)
                    if d is not None:
                        acc.oblige(eng, "CBS.threshold_is_scale_times_published_default", approx_eq(rv(d.threshold_), s, want),
                                   dict(info, det="CBS", M=M))
                    acc.oblige(eng, "CBS.published_default_is_2p_log_nM", approx_eq(z3.RealVal(Fraction(float(want))), z3.RealVal(1), 2 * p * math.log(n * M)),
                               dict(info, det="CBS", M=M))
        acc.sample(dict(part="formula", ns=list(ns), ps=list(ps)))

    return Harness(run, base, name="formulas")


def make_families(ns, ps, ks):
    s = z3.Real("scale")
    base = [s >= 0]

    def run(eng, acc):
        import skchange.anomaly_detectors.mvcapa as mv
        S = SymReal(s)
        for n in ns:
            for p in ps:
                for k in ks:
                    info = dict(n=n, p=p, k=k, part="family")
                    fam = {}
                    for name in ("dense", "sparse", "intermediate", "combined"):
                        if name == "intermediate" and p < 2:
                            continue
                        f = mv.capa_penalty_factory(name)
                        try:
                            a, b = f(n, p, k, scale=S)
                            with proxy.native():
                                a1, b1 = f(n, p, k, scale=1.0)
                        except Exception as ex:
                            acc.concrete(f"{name}.runs", False, dict(info, family=name, exception=f"{type(ex).__name__}: {ex}"[:160]))
                            continue
                        acc.inc("translator_ok")      # the family function also ran natively (scale 1)
                        b = [rv(x) for x in np.asarray(b).ravel()]
                        a = rv(a)
                        b1 = [float(x) for x in np.asarray(b1).ravel()]
                        fam[name] = (a, b)
                        acc.concrete(f"{name}.one_beta_per_component", len(b) == p, dict(info, family=name, len=len(b)))
                        acc.oblige(eng, f"{name}.nonnegative", z3.And([a >= 0] + [x >= 0 for x in b]), dict(info, family=name))
                        cum = [a + tsum(b[:i + 1]) for i in range(len(b))]
                        cum1 = [float(a1) + sum(b1[:i + 1]) for i in range(len(b1))]
                        acc.oblige(eng, f"{name}.cumulative_nondecreasing", z3.And([cum[i + 1] >= cum[i] for i in range(len(cum) - 1)]),
                                   dict(info, family=name))
                        acc.oblige(eng, f"{name}.proportional_to_scale",
                                   z3.And([approx_eq(cum[i], s, cum1[i]) for i in range(min(len(cum), len(cum1)))] + [approx_eq(a, s, float(a1))]),
                                   dict(info, family=name))
                    ln = math.log(n)
                    if "dense" in fam:
                        a, b = fam["dense"]
                        kk = p * k
                        acc.oblige(eng, "dense.is_capa_penalty_of_pk_parameters",
                                   z3.And([approx_eq(a, s, kk + 2 * math.sqrt(kk * ln) + 2 * ln)] + [x == 0 for x in b]), dict(info, family="dense"))
                    if "sparse" in fam:
                        a, b = fam["sparse"]
                        acc.oblige(eng, "sparse.is_2logn_plus_2log_kp_per_component",
                                   z3.And([approx_eq(a, s, 2 * ln)] + [approx_eq(x, s, 2 * math.log(k * p)) for x in b]), dict(info, family="sparse"))
                    if "combined" in fam and p >= 2 and all(x in fam for x in ("dense", "sparse", "intermediate")):
                        ca, cb = fam["combined"]
                        for i in range(p):
                            cands = [fam[x][0] + tsum(fam[x][1][:i + 1]) for x in ("dense", "sparse", "intermediate")]
                            c = ca + tsum(cb[:i + 1])
                            acc.oblige(eng, "combined.is_pointwise_minimum",
                                       z3.And([c <= x for x in cands] + [z3.Or([c == x for x in cands])]), dict(info, family="combined", components=i + 1))
                    if "combined" in fam and p == 1 and "dense" in fam:
                        acc.oblige(eng, "combined.is_dense_for_one_column", z3.And(fam["combined"][0] == fam["dense"][0]), dict(info, family="combined"))
        acc.sample(dict(part="family", ns=list(ns), ps=list(ps), ks=list(ks)))

    return Harness(run, base, name="families")


def make_tuned(det, n, p=1, level=0.2, b=1, mdi=1):
    """threshold_scale=None: threshold_ is the (1-level) quantile of exactly the training scores (whatever the other
    hyper-parameters are: b / mdi = bandwidth / min_detection_interval of the moving window, seed C15-f)."""
    X = pd.DataFrame(np.zeros((n, p)))
    info = dict(part="tuned", det=det, n=n, p=p, level=level, b=b, mdi=mdi)

    def run(eng, acc):
        from skchange.anomaly_detectors import CircularBinarySegmentation
        from skchange.change_detectors import MovingWindow, SeededBinarySegmentation
        if det == "MovingWindow":
            d = MovingWindow(TableChangeScore(p=p), bandwidth=b, threshold_scale=None, level=level, min_detection_interval=mdi).fit(X)
            want = [tsum([z3.Real(f"T_{t - b}_{t}_{t + b}_{j}") for j in range(p)]) if b <= t <= n - b else z3.RealVal(0) for t in range(n)]
        elif det == "SBS":
            d = SeededBinarySegmentation(TableChangeScore(p=p), threshold_scale=None, level=level, min_segment_length=1,
                                         max_interval_length=200, growth_factor=2.0).fit(X)
            d2 = SeededBinarySegmentation(TableChangeScore(p=p), threshold_scale=0.0, level=level, min_segment_length=1,
                                          max_interval_length=200, growth_factor=2.0).fit(X)
            d2.predict(X)
            want = [rv(v) for v in d2.scores["score"]]
        else:
            d = CircularBinarySegmentation(TableLocalScore(p=p), threshold_scale=None, level=level, min_segment_length=1,
                                           max_interval_length=200, growth_factor=1.5).fit(X)
            d2 = CircularBinarySegmentation(TableLocalScore(p=p), threshold_scale=0.0, level=level, min_segment_length=1,
                                            max_interval_length=200, growth_factor=1.5).fit(X)
            d2.predict(X)
            want = [rv(v) for v in d2.scores["score"]]
        calls = eng.notes.get("quantile_calls", [])
        acc.concrete("tuned.quantile_called_once_in_fit", len(calls) >= 1, dict(info, calls=len(calls)), eng=eng)
        if not calls:
            return
        vals, tq, v = calls[0]
        acc.oblige(eng, "tuned.threshold_is_the_quantile_value", rv(d.threshold_) == v, info)
        acc.oblige(eng, "tuned.quantile_level_is_1_minus_level", tq == z3.RealVal(Fraction(1 - level)), info)
        acc.concrete("tuned.quantile_over_all_training_scores.count", len(vals) == len(want), dict(info, got=len(vals), want=len(want)), eng=eng)
        if len(vals) == len(want):
            acc.oblige(eng, "tuned.quantile_over_exactly_the_training_scores", z3.And([a == b for a, b in zip(vals, want)]), info)
        acc.sample(dict(info, threshold=str(d.threshold_)))

    return Harness(run, [], name=f"tuned {info}")


def make_pelt_monotone(n, m):
    from .c02 import split_inequalities
    s1, ds = z3.Real("sigma"), z3.Real("dsigma")
    base = [s1 >= 0, ds >= 0] + split_inequalities(n, m, 1)
    X = pd.DataFrame(np.zeros((n, 1)))
    info = dict(part="pelt_monotone", n=n, m=m)

    def run(eng, acc):
        from skchange.change_detectors import PELT
        a = PELT(TableCost(p=1), penalty_scale=SymReal(s1), min_segment_length=m).fit(X).predict(X)
        b = PELT(TableCost(p=1), penalty_scale=SymReal(s1 + ds), min_segment_length=m).fit(X).predict(X)
        ca, cb = [int(c) for c in a["ilocs"]], [int(c) for c in b["ilocs"]]
        acc.add_to("outputs", (tuple(ca), tuple(cb)))
        acc.concrete("PELT.larger_penalty_never_more_changepoints", len(cb) <= len(ca), dict(info, cpts=ca, cpts_larger_penalty=cb), eng=eng)
        acc.sample(dict(info, cpts=ca, cpts_larger_penalty=cb))

    return Harness(run, base, name=f"pelt monotone {info}")


def jobs(tier):
    M = "harness.c15"
    out = []
    if tier == "quick":
        out.append(Job(M, "make_formulas", dict(ns=(2, 3, 5, 10, 40), ps=(1, 2, 4))))
        out.append(Job(M, "make_families", dict(ns=(5, 50), ps=(1, 2, 3, 5), ks=(1, 2))))
        tuned = [("MovingWindow", 4, 1), ("MovingWindow", 5, 2), ("SBS", 4, 1), ("CBS", 4, 1)]
        mono = [(3, 1), (4, 1), (5, 2), (6, 2)]
    else:
        out.append(Job(M, "make_formulas", dict(ns=tuple(range(2, 41)), ps=(1, 2, 3, 4))))
        out.append(Job(M, "make_families", dict(ns=(2, 5, 50, 1000), ps=(1, 2, 3, 4, 5, 6), ks=(1, 2, 3))))
        tuned = [("MovingWindow", 4, 1), ("MovingWindow", 6, 2), ("SBS", 4, 1), ("SBS", 5, 1), ("CBS", 4, 1), ("CBS", 5, 1)]
        mono = [(3, 1), (4, 1), (5, 1), (5, 2), (6, 2), (7, 3)]      # (7, 2) alone exceeds 30 min (product of two 11 476-path runs)
    for (det, n, p) in tuned:
        out.append(Job(M, "make_tuned", dict(det=det, n=n, p=p), split=n >= 5 and det != "MovingWindow"))
    # tuning must not depend on the detection-time parameters (bandwidth >= 4 allows min_detection_interval = 2)
    for (n, b, mdi) in ([(10, 4, 2)] if tier == "quick" else [(10, 4, 2), (14, 6, 3), (9, 4, 1)]):
        out.append(Job(M, "make_tuned", dict(det="MovingWindow", n=n, p=1, b=b, mdi=mdi)))
    for (n, m) in mono:
        out.append(Job(M, "make_pelt_monotone", dict(n=n, m=m), split=True))
    return out


def replay(cx):
    info = cx.get("info") or {}
    model = cx.get("model") or {}
    ob = cx["ob"]
    part = info.get("part")
    key = ob
    scale = float(Fraction(model.get("scale", "2"))) if model else 2.0
    if part == "family":
        import skchange.anomaly_detectors.mvcapa as mv
        n, p, k, name = info["n"], info["p"], info["k"], info.get("family")
        bad = []
        with proxy.native():
            try:
                if scale in (0.0, 1.0):
                    scale = 3.0
                f = mv.capa_penalty_factory(name)
                a, b = f(n, p, k, scale=scale)
                a1, b1 = f(n, p, k, scale=1.0)
                cum, cum1 = float(a) + np.cumsum(b), float(a1) + np.cumsum(b1)
                if float(a) < 0 or (np.asarray(b) < -1e-12).any():
                    bad.append(f"negative penalty component alpha={a} betas={np.asarray(b).tolist()}")
                if (np.diff(cum) < -1e-9).any():
                    bad.append(f"cumulative penalty decreases: {cum.tolist()}")
                if not np.allclose(cum, scale * cum1, rtol=1e-9) or not np.isclose(float(a), scale * float(a1), rtol=1e-9, atol=1e-12):
                    bad.append(f"not proportional to the scale: scale={scale}: alpha={a}, cumulative {cum.tolist()} vs {scale} x {cum1.tolist()} (alpha at scale 1: {a1})")
                ln = math.log(n)
                if name == "dense":
                    kk = p * k
                    if not np.isclose(float(a), scale * (kk + 2 * math.sqrt(kk * ln) + 2 * ln), rtol=1e-9) or np.any(np.asarray(b) != 0):
                        bad.append(f"dense != capa_penalty(n, p*k, scale): alpha={a}, betas={np.asarray(b).tolist()}")
                if name == "sparse":
                    if not np.isclose(float(a), 2 * scale * ln, rtol=1e-9) or not np.allclose(b, 2 * scale * math.log(k * p), rtol=1e-9):
                        bad.append(f"sparse != (2 s log n, 2 s log(kp)): alpha={a}, betas={np.asarray(b).tolist()}")
                if name == "combined" and p >= 2:
                    cs = []
                    for x in ("dense", "sparse", "intermediate"):
                        ax, bx = mv.capa_penalty_factory(x)(n, p, k, scale=scale)
                        cs.append(float(ax) + np.cumsum(bx))
                    if not np.allclose(cum, np.minimum(cs[0], np.minimum(cs[1], cs[2])), rtol=1e-9):
                        bad.append(f"combined cumulative {cum.tolist()} != pointwise min of dense {cs[0].tolist()}, sparse {cs[1].tolist()}, intermediate {cs[2].tolist()}")
            except Exception as ex:
                bad.append(f"{type(ex).__name__}: {ex}")
        return dict(reproduced=bool(bad), key=f"{name}|{ob.split('.')[-1]}", what=f"{name}_mvcapa_penalty(n={n}, p={p}, n_params_per_variable={k}, scale={scale}): " + "; ".join(bad)[:600])
    if part == "formula":
        from skchange.anomaly_detectors import CAPA, CircularBinarySegmentation
        from skchange.change_detectors import PELT, MovingWindow, SeededBinarySegmentation
        n, p, det = info["n"], info["p"], info["det"]
        X = pd.DataFrame(np.zeros((n, p)))
        ln = math.log(n)
        scale = scale if (scale > 0 or "scale" in model) else 2.0       # the model's scale, including exactly 0
        gauss = "cost" in info or "score" in info     # the run with a two-parameters-per-variable scorer
        try:
            return _replay_formula(info, ob, key, scale, gauss, n, p, det, X, ln)
        except Exception as ex:
            return dict(reproduced=True, key=f"{key}|{type(ex).__name__}", what=f"{det} fitted on shape ({n},{p}) with scale {scale} raised {type(ex).__name__}: {ex}"[:400])
    return _replay_rest(cx, info, model, ob, part, key)


def _replay_formula(info, ob, key, scale, gauss, n, p, det, X, ln):
    from skchange.anomaly_detectors import CAPA, CircularBinarySegmentation
    from skchange.change_detectors import PELT, MovingWindow, SeededBinarySegmentation
    if True:
        with proxy.native():
            from skchange.anomaly_scores import to_local_anomaly_score
            from skchange.change_scores import to_change_score
            from skchange.costs import GaussianVarCost, L2Cost
            # same call shape as the symbolic run: default scorer, or the Gaussian one
            cs = dict(change_score=to_change_score(GaussianVarCost())) if gauss else {}
            las = dict(anomaly_score=to_local_anomaly_score(GaussianVarCost())) if gauss else {}
            if det == "PELT":
                got = PELT(**(dict(cost=GaussianVarCost()) if gauss else {}), penalty_scale=scale, min_segment_length=1).fit(X).penalty_
                want = scale * 2 * p * ln
            elif det == "SBS":
                got = SeededBinarySegmentation(**cs, threshold_scale=scale, min_segment_length=1).fit(X).threshold_
                want = scale * 2 * p * math.sqrt(ln)
            elif det == "CAPA":
                k = info["k"]
                d = CAPA(TableSaving(p=p, n_params=k // p), TableSaving(p=p, tag="P"), collective_penalty_scale=scale, point_penalty_scale=scale,
                         min_segment_length=2, max_segment_length=5).fit(X)
                got, want = d.collective_penalty_, scale * (k + 2 * math.sqrt(k * ln) + 2 * ln)
                if "point" in ob:
                    one = CAPA(TableSaving(p=p, n_params=k // p), TableSaving(p=p, tag="P"), collective_penalty_scale=1.0, point_penalty_scale=1.0,
                               min_segment_length=2, max_segment_length=5).fit(X)
                    got, want = d.point_penalty_, scale * one.point_penalty_
            elif det == "MovingWindow":
                b, level = info["b"], info["level"]
                got = MovingWindow(**cs, bandwidth=b, threshold_scale=scale, level=level).fit(X).threshold_
                want = scale * MovingWindow.get_default_threshold(n, p, b, level)
            else:
                M = info["M"]
                got = CircularBinarySegmentation(**las, threshold_scale=scale, min_segment_length=1,
                                                 max_interval_length=M).fit(X).threshold_
                want = scale * (2 * p * math.log(n * M) if "2p_log" in ob else CircularBinarySegmentation.get_default_threshold(n, p, M))
        bad = not math.isclose(float(got), float(want), rel_tol=1e-9, abs_tol=1e-12)
        return dict(reproduced=bad, key=key, what=f"{det} fitted on shape ({n},{p}) with scale {scale}: value {got}, documented formula gives {want}")


def _replay_rest(cx, info, model, ob, part, key):
    if part == "pelt_monotone":
        from skchange.change_detectors import PELT
        n, m = info["n"], info["m"]
        values = values_from_model(model, ["c"])
        s1, ds = float(Fraction(model.get("sigma", "0"))), float(Fraction(model.get("dsigma", "0")))
        X = pd.DataFrame(np.zeros((n, 1)))
        with proxy.native():
            a = PELT(TableCost(p=1, values=values), penalty_scale=s1, min_segment_length=m).fit(X).predict(X)
            b = PELT(TableCost(p=1, values=values), penalty_scale=s1 + ds, min_segment_length=m).fit(X).predict(X)
        bad = len(b) > len(a)
        return dict(reproduced=bad, key=key, what=f"PELT(m={m}) on n={n}: penalty scale {s1} gives {list(a['ilocs'])}, larger scale {s1 + ds} gives {list(b['ilocs'])} [table {values}]")
    if part == "tuned":
        det, n, p, level = info["det"], info["n"], info["p"], info["level"]
        from skchange.anomaly_detectors import CircularBinarySegmentation
        from skchange.change_detectors import MovingWindow, SeededBinarySegmentation
        rng = np.random.default_rng(3)

        class Tab(dict):
            def get(self, k, d=None):
                if k not in self:
                    self[k] = float(rng.integers(0, 40)) / 4
                return self[k]
        X = pd.DataFrame(np.zeros((n, p)))
        t = Tab()
        with proxy.native():
            if det == "MovingWindow":
                b_, mdi_ = info.get("b", 1), info.get("mdi", 1)
                d = MovingWindow(TableChangeScore(p=p, values=t), bandwidth=b_, threshold_scale=None, level=level, min_detection_interval=mdi_).fit(X)
                sc = MovingWindow(TableChangeScore(p=p, values=t), bandwidth=b_, threshold_scale=1.0).fit(X).transform_scores(X).values
            elif det == "SBS":
                kw = dict(min_segment_length=1, max_interval_length=200, growth_factor=2.0, level=level)
                d = SeededBinarySegmentation(TableChangeScore(p=p, values=t), threshold_scale=None, **kw).fit(X)
                d2 = SeededBinarySegmentation(TableChangeScore(p=p, values=t), threshold_scale=0.0, **kw).fit(X)
                d2.predict(X)
                sc = d2.scores["score"].values
            else:
                kw = dict(min_segment_length=1, max_interval_length=200, growth_factor=1.5, level=level)
                d = CircularBinarySegmentation(TableLocalScore(p=p, values=t), threshold_scale=None, **kw).fit(X)
                d2 = CircularBinarySegmentation(TableLocalScore(p=p, values=t), threshold_scale=0.0, **kw).fit(X)
                d2.predict(X)
                sc = d2.scores["score"].values
        want = float(np.quantile(np.asarray(sc, dtype=float), 1 - level))
        bad = not math.isclose(float(d.threshold_), want, rel_tol=1e-9, abs_tol=1e-12)
        return dict(reproduced=bad, key=key, what=f"{det} tuned threshold {d.threshold_} but the {1 - level}-quantile of the training scores {np.asarray(sc).tolist()} is {want}")
    return dict(reproduced=None, key=key, what="no replay for this obligation")
