#!/bin/sh
# tools/try_seed.sh <seed dir with patch.diff + demo.py> <tier> <check ids...>
# Applies the patch to /repo, confirms demo fails / tests pass / which checks alarm, then reverts /repo.
D="$1"; TIER="$2"; shift 2
cd /repo || exit 3
[ -z "$(git status --porcelain)" ] || { echo "/repo not clean"; exit 3; }
git apply "$D/patch.diff" || { echo "patch does not apply"; exit 3; }
echo "== with patch: $(git diff --stat | tail -1)"
PYTHONPATH=/repo /venv/bin/python "$D/demo.py" > /tmp/seed_demo_with.log 2>&1; echo "demo exit with patch: $?"
/venv/bin/python -m pytest -q -p no:cacheprovider --timeout=900 -n 12 2>&1 | tail -1
cd /verif
for id in "$@"; do
  ./check "$id" --tier "$TIER" > "/tmp/seed_check_$id.log" 2>&1; code=$?
  echo "check $id ($TIER) exit=$code violations=$(grep -c '^VIOLATION' /tmp/seed_check_$id.log) | $(grep -A1 '^VIOLATION' /tmp/seed_check_$id.log | sed -n 2p | cut -c1-260)"
done
git -C /repo checkout -- . && git -C /repo clean -fdq -e _seed >/dev/null 2>&1
PYTHONPATH=/repo /venv/bin/python "$D/demo.py" > /tmp/seed_demo_without.log 2>&1; echo "demo exit without patch: $?"
