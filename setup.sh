#!/bin/sh
# Build the overlay venv used by every check: /venv's site-packages (skchange's own
# dependencies) + z3-solver / crosshair-tool / cvc5 from the offline wheelhouse.
# Idempotent; no network.
set -e
HERE="$(cd "$(dirname "$0")" && pwd)"
V="$HERE/.venv"
if [ -x "$V/bin/python" ] && "$V/bin/python" -c "import z3, crosshair, numpy, pandas, sktime" 2>/dev/null; then
  exit 0
fi
rm -rf "$V"
/venv/bin/python -m venv "$V"
SP="$V/lib/python3.12/site-packages"
echo "import site; site.addsitedir('/venv/lib/python3.12/site-packages')" > "$SP/_overlay.pth"
PIP_NO_INDEX=1 "$V/bin/pip" install -q --no-index --find-links /opt/veriftools/wheels z3-solver crosshair-tool cvc5 >/dev/null
"$V/bin/python" -c "import z3, crosshair, numpy, pandas, sktime; print('overlay ok', z3.get_version_string())"
