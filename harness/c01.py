"""C01 -- cost values equal their definition on every admissible interval.

Real code executed symbolically: <Cost>(param).fit(X).evaluate(cuts) for L2Cost,
GaussianVarCost, GaussianCovCost on an n x p matrix of unconstrained real variables.
Per admissible interval and column the returned term must equal the textbook
definition computed directly from the rows X[s:e] (validity query, NRA; `log` is the
same Ackermannised function on both sides, so equality reduces to the arguments)."""
from __future__ import annotations

import itertools
import math
from fractions import Fraction

import numpy as np
import z3

from symnp import proxy
from symnp.core import Engine, SymReal, log_term, rv
from symnp.drive import Acc, Harness, Job
from symnp.proxy import det_term, sym_cov
from symnp.witness import FloatEval, close, robust_model

from .common import FLOOR, PI2, col_terms, intervals, model_env, model_matrix, rss, sym_matrix, tsum

PROPERTY = "C01"
FUNCTIONS = [
    "skchange.base.base_interval_scorer:BaseIntervalScorer.fit",
    "skchange.base.base_interval_scorer:BaseIntervalScorer.evaluate",
    "skchange.base.base_interval_scorer:BaseIntervalScorer._check_cuts",
    "skchange.utils.validation.data:as_2d_array",
    "skchange.utils.validation.cuts:check_cuts_array",
    "skchange.costs.base:BaseCost._evaluate",
    "skchange.costs.base:BaseCost._check_param",
    "skchange.utils.numba.stats:col_cumsum",
    "skchange.utils.numba.stats:log_det_covariance",
    "skchange.utils.numba.general:truncate_below",
    "skchange.costs.l2_cost:l2_cost_optim",
    "skchange.costs.l2_cost:l2_cost_fixed",
    "skchange.costs.l2_cost:L2Cost._fit",
    "skchange.costs.gaussian_var_cost:var_from_sums",
    "skchange.costs.gaussian_var_cost:gaussian_var_cost_optim",
    "skchange.costs.gaussian_var_cost:gaussian_var_cost_fixed",
    "skchange.costs.gaussian_var_cost:GaussianVarCost._fit",
    "skchange.costs.gaussian_cov_cost:_gaussian_ll_at_mle_for_segment",
    "skchange.costs.gaussian_cov_cost:_gaussian_ll_at_fixed_for_segment",
    "skchange.costs.gaussian_cov_cost:gaussian_cov_cost_optim",
    "skchange.costs.gaussian_cov_cost:gaussian_cov_cost_fixed",
    "skchange.costs.gaussian_cov_cost:GaussianCovCost._fit",
    "skchange.costs.utils:check_mean",
    "skchange.costs.utils:check_var",
    "skchange.costs.utils:check_cov",
]
BOUNDS = {
    "quick": "n<=5 rows, p<=2 columns, every interval 0<=s<e<=n with e-s>=min_size; "
             "batches of 2 cuts in both orders (all pairs for L2, n<=4 for the Gaussian costs); "
             "fixed parameters symbolic (scalar and per column; covariance symmetric with "
             "positive leading minors, p<=2)",
    "thorough": "n<=7 (L2), n<=6 (Gaussian), p<=3; batches of 2 cuts (all ordered pairs) and "
                "3 cuts (sampled orders); fixed covariance symbolic p<=2, concrete list p=3",
}
STUBS = [
    "np.log: Ackermannised uninterpreted function (fresh real per application + congruence)",
    "np.cov(X, rowvar=False, ddof=0): exact polynomial sample covariance",
    "np.linalg.slogdet / inv / eigvals>0: cofactor determinant, adjugate inverse, Sylvester minors (p<=3)",
]
ASSUMPTIONS = [
    "floats are reals: the verdict is the exact-arithmetic identity (property: 'up to prefix-sum rounding')",
    "the floor branch value 2*pi*1e-16 is the double the implementation computes",
    "fixed variances > 0; fixed covariance symmetric positive definite",
]
OUTSIDE = ["floating-point rounding", "n, p beyond the bounds", "numerical behaviour of LAPACK near singularity",
           "dtype effects (see C11)"]


# ----------------------------------------------------------------------------------

def _cost(kind, mode, p):
    """Returns (cost object, base constraints, oracle parameter dict)."""
    from skchange.costs import GaussianCovCost, GaussianVarCost, L2Cost
    base, par = [], {}
    if kind == "l2":
        if mode == "optim":
            return L2Cost(), base, par
        if mode == "fixed_scalar":
            mu = z3.Real("mu")
            par["mu"] = [mu] * p
            return L2Cost(SymReal(mu)), base, par
        mus = [z3.Real(f"mu_{j}") for j in range(p)]
        par["mu"] = mus
        return L2Cost(np.array([SymReal(m) for m in mus], dtype=object)), base, par
    if kind == "gvar":
        if mode == "optim":
            return GaussianVarCost(), base, par
        if mode == "fixed_scalar":
            mu, var = z3.Real("mu"), z3.Real("var")
            base.append(var > 0)
            par["mu"], par["var"] = [mu] * p, [var] * p
            return GaussianVarCost((SymReal(mu), SymReal(var))), base, par
        mus = [z3.Real(f"mu_{j}") for j in range(p)]
        vs = [z3.Real(f"var_{j}") for j in range(p)]
        base += [v > 0 for v in vs]
        par["mu"], par["var"] = mus, vs
        return GaussianVarCost((np.array([SymReal(m) for m in mus], dtype=object),
                                np.array([SymReal(v) for v in vs], dtype=object))), base, par
    if kind == "gcov":
        if mode == "optim":
            return GaussianCovCost(), base, par
        if mode == "fixed_scalar":      # scalar mean, scalar covariance c*I
            mu, c = z3.Real("mu"), z3.Real("cv")
            base.append(c > 0)
            S = np.empty((p, p), dtype=object)
            for a in range(p):
                for b in range(p):
                    S[a, b] = SymReal(c if a == b else z3.RealVal(0))
            par["mu"], par["cov"] = [mu] * p, S
            return GaussianCovCost((SymReal(mu), SymReal(c))), base, par
        mus = [z3.Real(f"mu_{j}") for j in range(p)]
        S = np.empty((p, p), dtype=object)
        if mode == "fixed_sym":
            for a in range(p):
                for b in range(a, p):
                    S[a, b] = S[b, a] = SymReal(z3.Real(f"s_{a}_{b}"))
            for k in range(1, p + 1):
                base.append(det_term(S[:k, :k]) > 0)
        else:  # fixed_concrete: a non-diagonal SPD matrix of small rationals
            M = [[Fraction(2), Fraction(1, 2), Fraction(-1, 4)],
                 [Fraction(1, 2), Fraction(3, 2), Fraction(1, 4)],
                 [Fraction(-1, 4), Fraction(1, 4), Fraction(1)]]
            for a in range(p):
                for b in range(p):
                    S[a, b] = SymReal(z3.RealVal(M[a][b]))
        par["mu"], par["cov"] = mus, S
        return GaussianCovCost((np.array([SymReal(m) for m in mus], dtype=object), S.copy())), base, par
    raise ValueError(kind)


def _min_size(kind, p):
    return {"l2": 1, "gvar": 2}.get(kind, p + 1)


def reference(kind, mode, par, X, s, e, j):
    """The defining value of the cost of column j (or of all columns, gcov) on X[s:e]."""
    m = e - s
    p = X.shape[1]
    if kind == "l2":
        ts = col_terms(X, s, e, j)
        return rss(ts) if mode == "optim" else rss(ts, par["mu"][j])
    if kind == "gvar":
        ts = col_terms(X, s, e, j)
        if mode == "optim":
            var = rss(ts) / m
            # at the floor the implementation may form 2*pi*1e-16 as one double product or keep the two factors
            # apart (e.g. np.maximum instead of an in-place truncation): both are "the definition up to rounding"
            arg1 = z3.If(var < FLOOR, z3.RealVal(Fraction(2 * math.pi * 1e-16)), PI2 * var)
            arg2 = z3.If(var < FLOOR, PI2 * FLOOR, PI2 * var)
            return [m * log_term(arg1) + m, m * log_term(arg2) + m]
        return m * log_term(PI2 * par["var"][j]) + rss(ts, par["mu"][j]) / par["var"][j]
    # gcov
    if mode == "optim":
        d = det_term(np.asarray(sym_cov(X[s:e], rowvar=False, ddof=0)).reshape(p, p))
        return m * p * log_term(PI2) + m * log_term(z3.If(d >= 0, d, -d)) + m * p, d
    S = par["cov"]
    d = det_term(S)
    quad = z3.RealVal(0)
    # (x-mu)^T S^-1 (x-mu) with S^-1 = adj(S)/det(S)
    for i in range(s, e):
        y = [rv(X[i, a]) - par["mu"][a] for a in range(p)]
        for a in range(p):
            for b in range(p):
                if p == 1:
                    cof = z3.RealVal(1)
                else:
                    minor = np.delete(np.delete(S, b, 0), a, 1)
                    cof = det_term(minor)
                    if (a + b) % 2:
                        cof = -cof
                quad = quad + y[a] * (cof / d) * y[b]
    return m * p * log_term(PI2) + m * log_term(z3.If(d >= 0, d, -d)) + quad, d


def _native_cost(kind, mode, p, env):
    from skchange.costs import GaussianCovCost, GaussianVarCost, L2Cost
    g = lambda k: float(env.get(k, 0.0))
    if mode == "optim":
        return {"l2": L2Cost, "gvar": GaussianVarCost, "gcov": GaussianCovCost}[kind]()
    if kind == "l2":
        return L2Cost(g("mu")) if mode == "fixed_scalar" else L2Cost(np.array([g(f"mu_{j}") for j in range(p)]))
    if kind == "gvar":
        if mode == "fixed_scalar":
            return GaussianVarCost((g("mu"), g("var")))
        return GaussianVarCost((np.array([g(f"mu_{j}") for j in range(p)]), np.array([g(f"var_{j}") for j in range(p)])))
    if mode == "fixed_scalar":
        return GaussianCovCost((g("mu"), g("cv")))
    mus = np.array([g(f"mu_{j}") for j in range(p)])
    if mode == "fixed_sym":
        S = np.array([[g(f"s_{min(a, b)}_{max(a, b)}") for b in range(p)] for a in range(p)])
    else:
        M = [[2, .5, -.25], [.5, 1.5, .25], [-.25, .25, 1]]
        S = np.array(M)[:p, :p]
    return GaussianCovCost((mus, S))


def make_values(kind, mode, n, p):
    """One harness per admissible interval: value == definition, shape, error path."""
    hs = []
    for (s, e) in intervals(n, _min_size(kind, p)):
        hs.append(_value_harness(kind, mode, n, p, s, e))
    return hs


def _value_harness(kind, mode, n, p, s, e):
    X = sym_matrix(n, p)
    info = dict(kind=kind, mode=mode, n=n, p=p, s=s, e=e)
    _, base0, _ = _cost(kind, mode, p)

    def run(eng, acc):
        with proxy.settings(exact=True):
            cost, _, par = _cost(kind, mode, p)
            err = None
            try:
                c = cost.fit(X)
                out = c.evaluate(np.array([[s, e]]))
            except RuntimeError as ex:
                err = ex
            except Exception as ex:
                # the code reached something the symbolic values cannot pass (e.g. float(param)): not a crash of the harness
                # but a failed obligation; the replay then decides natively, at the model's point and at further fixed points
                acc.concrete(f"{kind}.{mode}.value", False, dict(info, symbolic_run=f"not possible: {type(ex).__name__}: {ex}"[:160]), eng=eng)
                return
            ncols = 1 if kind == "gcov" else p
            if kind == "gcov":
                ref, d = reference(kind, mode, par, X, s, e, 0)
                if mode == "optim":
                    if err is not None:
                        acc.inc("error_paths")
                        acc.oblige(eng, "gcov.error_only_if_not_pd", d <= 0, info)
                        return
                    acc.oblige(eng, "gcov.value_implies_pd", d > 0, info)
                elif err is not None:
                    acc.concrete("gcov.fixed_never_raises", False, info)
                    return
                refs = [ref]
            else:
                if err is not None:
                    acc.concrete("univariate_never_raises", False, info)
                    return
                refs = [reference(kind, mode, par, X, s, e, j) for j in range(p)]
            acc.concrete("shape", tuple(out.shape) == (1, ncols), dict(info, shape=tuple(out.shape)))
            if tuple(out.shape) != (1, ncols):
                return
            for j in range(ncols):
                alts = refs[j] if isinstance(refs[j], list) else [refs[j]]
                acc.oblige(eng, f"{kind}.{mode}.value", z3.Or([rv(out[0, j]) == r for r in alts]), dict(info, col=j))
            _witness(eng, acc, kind, mode, n, p, s, e, out)
            acc.sample(dict(info, term=str(z3.simplify(rv(out[0, 0])))[:300]))

    return Harness(run, base0, sliced=True, timeout_ms=10000, name=f"value {info}")


def _witness(eng, acc, kind, mode, n, p, s, e, out):
    """Float witness: native run of the unpatched code on a model of the path."""
    if acc.total("witness_tried") >= 40:
        return
    acc.inc("witness_tried")
    model, delta = robust_model(eng)
    if model is None:
        acc.inc("witness_tie_or_unknown")
        return
    env = model_env(model)
    Xf = model_matrix(model, n, p)
    for i in range(n):
        for j in range(p):
            env[f"x_{i}_{j}"] = Xf[i, j]
    try:
        with proxy.native():
            got = _native_cost(kind, mode, p, env).fit(Xf).evaluate(np.array([[s, e]]))
    except Exception as ex:
        acc.error(f"C01 witness: native run raised {type(ex).__name__}: {ex} on {kind}/{mode} [{s},{e})")
        return
    fe = FloatEval(env, eng)
    for j in range(out.shape[1]):
        pred = fe(rv(out[0, j]))
        if not close(float(got[0, j]), float(pred), rel=1e-6, abs_=1e-6):
            acc.error(f"C01 witness mismatch {kind}/{mode} n={n} p={p} [{s},{e}) col {j}: native {got[0, j]} symbolic {pred}")
            return
    acc.inc("witness_ok")


def make_batch(kind, mode, n, p, size=2, limit=None):
    """Batch independence: the row of a cut is the same term whatever else is evaluated
    in the same call or before it."""
    ivs = intervals(n, _min_size(kind, p))
    combos = list(itertools.combinations(ivs, size))
    if limit is not None and len(combos) > limit:
        step = len(combos) / limit
        combos = [combos[int(i * step)] for i in range(limit)]
    return [_batch_harness(kind, mode, n, p, combo) for combo in combos]


def _batch_harness(kind, mode, n, p, combo):
    X = sym_matrix(n, p)
    info = dict(kind=kind, mode=mode, n=n, p=p, cuts=[list(c) for c in combo])
    _, base0, _ = _cost(kind, mode, p)

    def run(eng, acc):
        with proxy.settings(exact=True):
            cost, _, par = _cost(kind, mode, p)
            c = cost.fit(X)
            single = []
            for cut in combo:
                try:
                    single.append(c.evaluate(np.array([list(cut)]))[0])
                except RuntimeError:
                    single.append(None)
            # an earlier call with a different batch (adds no new branch conditions)
            try:
                c.evaluate(np.array([list(combo[-1]), list(combo[0])][: 1 + (len(combo) > 2)]))
            except RuntimeError:
                pass
            for order in itertools.permutations(range(len(combo))):
                cuts = np.array([list(combo[k]) for k in order])
                try:
                    got = c.evaluate(cuts)
                except RuntimeError:
                    acc.concrete("batch.error_iff_some_single_error", any(single[k] is None for k in order), info)
                    continue
                if any(single[k] is None for k in order):
                    acc.concrete("batch.error_iff_some_single_error", False, info)
                    continue
                ncols = 1 if kind == "gcov" else p
                acc.concrete("batch.shape", tuple(got.shape) == (len(order), ncols), dict(info, shape=tuple(got.shape)))
                if tuple(got.shape) != (len(order), ncols):
                    continue
                for r, k in enumerate(order):
                    for j in range(ncols):
                        a, b = rv(got[r, j]), rv(single[k][j])
                        if z3.simplify(a).eq(z3.simplify(b)):
                            acc.concrete("batch.row_independent", True)
                        else:
                            acc.oblige(eng, "batch.row_independent", a == b, dict(info, order=list(order), row=r, col=j))

    return Harness(run, base0, sliced=True, timeout_ms=10000, name=f"batch {info}")


# ----------------------------------------------------------------------------------

def jobs(tier):
    M = "harness.c01"
    out = []
    if tier == "quick":
        grid = dict(l2=[(n, p) for n in (1, 2, 3, 5) for p in (1, 2)],
                    gvar=[(n, p) for n in (2, 4, 5) for p in (1, 2)],
                    gcov=[(3, 1), (4, 2), (5, 2)])
        bgrid = dict(l2=[(5, 2)], gvar=[(4, 1), (4, 2)], gcov=[(4, 2)])
        modes = dict(l2=["optim", "fixed_scalar", "fixed_percol"], gvar=["optim", "fixed_scalar", "fixed_percol"],
                     gcov=["optim", "fixed_scalar", "fixed_sym"])
    else:
        grid = dict(l2=[(n, p) for n in range(1, 8) for p in (1, 2, 3)],
                    gvar=[(n, p) for n in range(2, 7) for p in (1, 2, 3)],
                    gcov=[(n, p) for n in range(2, 7) for p in (1, 2, 3) if n >= p + 1])
        bgrid = dict(l2=[(6, 2), (5, 3)], gvar=[(5, 1), (5, 2)], gcov=[(5, 2), (5, 3)])
        modes = dict(l2=["optim", "fixed_scalar", "fixed_percol"], gvar=["optim", "fixed_scalar", "fixed_percol"],
                     gcov=["optim", "fixed_scalar", "fixed_sym", "fixed_concrete"])
    for kind in ("l2", "gvar", "gcov"):
        for mode in modes[kind]:
            for (n, p) in grid[kind]:
                if kind == "gcov" and mode == "fixed_sym" and p > 2:
                    continue
                if mode == "fixed_percol" and p == 1:
                    continue
                out.append(Job(M, "make_values", dict(kind=kind, mode=mode, n=n, p=p)))
            for (n, p) in bgrid[kind]:
                if kind == "gcov" and mode == "fixed_sym" and p > 2:
                    continue
                if mode in ("fixed_percol", "fixed_concrete"):
                    continue
                out.append(Job(M, "make_batch", dict(kind=kind, mode=mode, n=n, p=p, size=2,
                                                     limit=None if kind == "l2" else (16 if tier == "quick" else 60))))
                if tier == "thorough":
                    out.append(Job(M, "make_batch", dict(kind=kind, mode=mode, n=n, p=p, size=3, limit=12)))
    return out


def extra(tier, seed):
    """Translator validation of the stubs on concrete inputs + concrete negative cases."""
    acc = Acc()
    rng = np.random.default_rng(seed)
    from symnp.proxy import LinalgProxy
    # LAPACK contracts against the real LAPACK on concrete matrices
    eng = Engine([], sliced=True)
    Engine.cur = eng
    try:
        for p in (1, 2, 3):
            for _ in range(6):
                A = rng.integers(-4, 5, size=(p + 3, p)).astype(float) / 2
                C = np.cov(A, rowvar=False, ddof=0).reshape(p, p)
                Cs = np.asarray(sym_cov(A.astype(object) * SymReal(z3.RealVal(1)), rowvar=False, ddof=0)).reshape(p, p)
                fe = FloatEval({}, eng)
                ok = all(close(float(C[a, b]), fe(rv(Cs[a, b])), 1e-9, 1e-12) for a in range(p) for b in range(p))
                d = fe(det_term(Cs))
                ok = ok and close(float(np.linalg.det(C)), d, 1e-7, 1e-9)
                if abs(np.linalg.det(C)) > 1e-6:
                    inv = LinalgProxy.inv(Cs)
                    ok = ok and all(close(float(np.linalg.inv(C)[a, b]), fe(rv(inv[a, b])), 1e-6, 1e-8)
                                    for a in range(p) for b in range(p))
                    minors = LinalgProxy.eigvals(Cs)
                    ok = ok and (all(fe(rv(v)) > 0 for v in minors) == bool(np.all(np.linalg.eigvals(C) > 0)))
                acc.inc("translator_ok" if ok else "translator_bad")
                if not ok:
                    acc.error(f"C01: LAPACK stub disagrees with NumPy on {A.tolist()}")
    finally:
        Engine.cur = None
    return acc


def replay(cx):
    """Re-run the failing configuration natively with the model's numbers and compare
    with an independent plain-Python evaluation of the definition."""
    info = cx.get("info") or {}
    model = cx.get("model") or {}
    kind, mode, n, p = info.get("kind"), info.get("mode"), info.get("n"), info.get("p")
    env = {k: float(Fraction(v)) for k, v in model.items() if _isnum(v)}
    Xf = np.array([[env.get(f"x_{i}_{j}", 0.0) for j in range(p)] for i in range(n)])
    key = f"{cx['ob']}|{kind}|{mode}"
    if info.get("symbolic_run"):
        # no informative model: the model's point plus deterministic data / parameter points (valid parameters by construction)
        rng = np.random.default_rng(101)
        tries = [(env, Xf)]
        for t in range(6):
            e2 = dict(env)
            e2["mu"], e2["var"], e2["cv"] = float(rng.integers(-3, 4)), float(rng.integers(1, 9)) / 2, float(rng.integers(1, 9)) / 2 + 0.25
            for j in range(p):
                e2[f"mu_{j}"], e2[f"var_{j}"] = float(rng.integers(-3, 4)), float(rng.integers(1, 9)) / 2
            for a in range(p):
                for b in range(a, p):
                    e2[f"s_{a}_{b}"] = 2.0 + a if a == b else 0.5
            tries.append((e2, rng.integers(-8, 9, size=(n, p)) / 2.0))
        c = [info["s"], info["e"]]
        for e2, X2 in tries:
            with proxy.native():
                try:
                    got = _native_cost(kind, mode, p, e2).fit(X2).evaluate(np.array([c]))
                except RuntimeError:
                    continue
                except Exception as ex:
                    return dict(reproduced=True, key=key + "|" + type(ex).__name__, what=f"{kind}/{mode} evaluate([{c}]) raised {type(ex).__name__}: {ex}"[:400])
            w = _plain_definition(kind, mode, p, e2, X2, c[0], c[1])
            if isinstance(w, Exception):
                continue
            if not np.allclose(got[0], np.atleast_1d(w), rtol=1e-6, atol=1e-7):
                pars = {k: v for k, v in e2.items() if not k.startswith('x_') and '#' not in k}
                return dict(reproduced=True, key=key, what=f"evaluate([{c}]) = {got[0].tolist()} but the definition gives {np.atleast_1d(w).tolist()} [X={np.asarray(X2).tolist()}, params={pars}]"[:700])
        return dict(reproduced=False, key=key, what=f"the symbolic run was not possible ({info['symbolic_run']}); natively the values equal the definition at {len(tries)} points")
    with proxy.native():
        cost = _native_cost(kind, mode, p, env)
        cost.fit(Xf)
        cuts = [[info["s"], info["e"]]] if "s" in info else info["cuts"]
        try:
            got = cost.evaluate(np.array(cuts))
            err = None
        except Exception as ex:
            got, err = None, ex
        singles = []
        for c in cuts:
            try:
                singles.append(_native_cost(kind, mode, p, env).fit(Xf).evaluate(np.array([c]))[0])
            except Exception as ex:
                singles.append(ex)
    want = [_plain_definition(kind, mode, p, env, Xf, c[0], c[1]) for c in cuts]
    bad = []
    if cx["ob"].startswith("batch"):
        for r, c in enumerate(cuts):
            if err is not None or isinstance(singles[r], Exception):
                if (err is not None) != any(isinstance(x, Exception) for x in singles):
                    bad.append(f"batch raises {err!r} but singles {singles}")
                continue
            if got.shape[0] != len(cuts) or not np.allclose(got[r], singles[r], rtol=1e-7, atol=1e-9):
                bad.append(f"row {r} of batch {cuts} = {got[r] if got.shape[0] == len(cuts) else got} but alone {singles[r]}")
    else:
        c = cuts[0]
        w = want[0]
        if isinstance(w, Exception) != (err is not None):
            bad.append(f"definition gives {w!r}, evaluate gives {repr(err) if err else got.tolist()}")
        elif err is None:
            ncols = 1 if kind == "gcov" else p
            if got.shape != (1, ncols):
                bad.append(f"shape {got.shape} != {(1, ncols)}")
            elif not np.allclose(got[0], np.atleast_1d(w), rtol=1e-6, atol=1e-7):
                bad.append(f"evaluate([{c}]) = {got[0].tolist()} but the definition gives {np.atleast_1d(w).tolist()}")
    return dict(reproduced=bool(bad), key=key, what="; ".join(bad)[:500] + f" [X={Xf.tolist()}, params={ {k: v for k, v in env.items() if not k.startswith('x_') and '#' not in k} }]")


def _isnum(v):
    try:
        Fraction(v)
        return True
    except Exception:
        return False


def _plain_definition(kind, mode, p, env, X, s, e):
    seg = X[s:e]
    m = e - s
    g = lambda k: float(env.get(k, 0.0))
    if kind == "l2":
        mu = seg.mean(axis=0) if mode == "optim" else (np.full(p, g("mu")) if mode == "fixed_scalar" else np.array([g(f"mu_{j}") for j in range(p)]))
        return ((seg - mu) ** 2).sum(axis=0)
    if kind == "gvar":
        if mode == "optim":
            var = np.maximum(((seg - seg.mean(axis=0)) ** 2).mean(axis=0), 1e-16)
            return m * np.log(2 * np.pi * var) + m
        mu = np.full(p, g("mu")) if mode == "fixed_scalar" else np.array([g(f"mu_{j}") for j in range(p)])
        var = np.full(p, g("var")) if mode == "fixed_scalar" else np.array([g(f"var_{j}") for j in range(p)])
        return m * np.log(2 * np.pi * var) + ((seg - mu) ** 2).sum(axis=0) / var
    if mode == "optim":
        C = np.atleast_2d((seg - seg.mean(axis=0)).T @ (seg - seg.mean(axis=0)) / m)
        d = np.linalg.det(C)
        if d <= 1e-300:
            return RuntimeError("not positive definite")
        return m * p * np.log(2 * np.pi) + m * np.log(d) + m * p
    if mode == "fixed_scalar":
        mu, S = np.full(p, g("mu")), g("cv") * np.eye(p)
    else:
        mu = np.array([g(f"mu_{j}") for j in range(p)])
        if mode == "fixed_sym":
            S = np.array([[g(f"s_{min(a, b)}_{max(a, b)}") for b in range(p)] for a in range(p)])
        else:
            S = np.array([[2, .5, -.25], [.5, 1.5, .25], [-.25, .25, 1]])[:p, :p]
    y = seg - mu
    return m * p * np.log(2 * np.pi) + m * np.log(np.linalg.det(S)) + float(np.sum(y @ np.linalg.inv(S) * y))
