"""E2 -- CrossHair contracts for the pure-Python helpers (DESIGN.md 2.3).

Each `_spec_*` function calls the *real* skchange helper on symbolic lists / ints and
returns whether the result equals an independent set-comprehension / reference
implementation; CrossHair (z3 underneath) searches for an input with a False result.
Each `_twin_*` function has the same precondition and the postcondition `False`: it
must be *refuted* (reachability witness -- otherwise the precondition is vacuous)."""
from typing import List

from skchange.anomaly_detectors.circular_binseg import make_anomaly_intervals
from skchange.anomaly_detectors.mvcapa import get_anomalies
from skchange.change_detectors.pelt import get_changepoints
from skchange.utils.numba.general import where


class _Sized(list):
    @property
    def size(self):
        return len(self)


def _where_ok(ind):
    runs = where(ind)
    covered = [False] * len(ind)
    prev_end = -1
    for (s, e) in runs:
        if not (0 <= s < e <= len(ind)):
            return False
        if s <= prev_end:
            return False
        if s > 0 and ind[s - 1]:
            return False
        if e < len(ind) and ind[e]:
            return False
        for i in range(s, e):
            if not ind[i]:
                return False
            covered[i] = True
        prev_end = e
    return all(covered[i] == bool(ind[i]) for i in range(len(ind)))


def _spec_where(ind: List[bool]) -> bool:
    """
    pre: len(ind) <= 6
    post: _
    """
    return _where_ok(ind)


def _twin_where(ind: List[bool]) -> bool:
    """
    pre: len(ind) <= 6
    post: False
    """
    return _where_ok(ind)


def _changepoints_ok(prev):
    out = [int(c) for c in get_changepoints(prev)]
    ref = []
    i = len(prev) - 1
    while i >= 0:
        ref.append(prev[i])
        i = prev[i] - 1
    ref = ref[::-1]
    return out == ref[1:] and all(a < b for a, b in zip(out, out[1:]))


def _spec_get_changepoints(prev: List[int]) -> bool:
    """
    pre: 1 <= len(prev) <= 6
    pre: all(0 <= prev[i] <= i for i in range(len(prev)))
    post: _
    """
    return _changepoints_ok(prev)


def _twin_get_changepoints(prev: List[int]) -> bool:
    """
    pre: 1 <= len(prev) <= 6
    pre: all(0 <= prev[i] <= i for i in range(len(prev)))
    post: False
    """
    return _changepoints_ok(prev)


def _anomaly_intervals_ok(start, length, m):
    end = start + length
    a, b = make_anomaly_intervals(start, end, m)
    got = sorted(zip([int(v) for v in a], [int(v) for v in b]))
    ref = sorted((i, j) for i in range(start + 1, end) for j in range(i + m, end) if (i - start) + (end - j) >= m)
    return got == ref


def _spec_make_anomaly_intervals(start: int, length: int, m: int) -> bool:
    """
    pre: 0 <= start <= 2 and 2 <= length <= 7 and 1 <= m <= 3
    post: _
    """
    return _anomaly_intervals_ok(start, length, m)


def _twin_make_anomaly_intervals(start: int, length: int, m: int) -> bool:
    """
    pre: 0 <= start <= 2 and 2 <= length <= 7 and 1 <= m <= 3
    post: False
    """
    return _anomaly_intervals_ok(start, length, m)


NONE = 100      # stands for "no anomaly ends here" (NaN in the real array: every comparison False)


def _get_anomalies_ok(st):
    coll, pts = get_anomalies(_Sized(st))
    # reference: walk back from the end
    rc, rp = [], []
    i = len(st) - 1
    while i >= 0:
        s = st[i]
        if s != NONE and i - s + 1 > 1:
            rc.append((s, i + 1))
            i = s
        elif s != NONE and i - s + 1 == 1:
            rp.append((i, i + 1))
        i -= 1
    ok = [tuple(map(int, c)) for c in coll] == rc and [tuple(map(int, p)) for p in pts] == rp
    # pairwise disjoint, inside [0, n]
    allv = sorted(rc + rp)
    ok = ok and all(0 <= a < b <= len(st) for a, b in allv) and all(x[1] <= y[0] for x, y in zip(allv, allv[1:]))
    return ok


def _spec_get_anomalies(st: List[int]) -> bool:
    """
    pre: len(st) <= 5
    pre: all(st[i] == 100 or 0 <= st[i] <= i for i in range(len(st)))
    post: _
    """
    return _get_anomalies_ok(st)


def _twin_get_anomalies(st: List[int]) -> bool:
    """
    pre: len(st) <= 5
    pre: all(st[i] == 100 or 0 <= st[i] <= i for i in range(len(st)))
    post: False
    """
    return _get_anomalies_ok(st)
