"""symnp.proxy -- the `np` seen by skchange.* modules while a harness runs.

Everything is forwarded to the real NumPy except the handful of functions listed in
DESIGN.md section 2.1 (array constructors returning object arrays, transcendental
functions, argmin/argmax, LAPACK calls, quantile).  pandas / sktime / scipy keep the
real NumPy: only module globals named `np` inside `skchange.*` are rebound.
"""
from __future__ import annotations

import contextlib
import importlib
import math
import pkgutil
import sys
from fractions import Fraction

import numpy as _np
import z3

from .core import (Engine, NonFinite, SymBool, SymInt, SymReal, is_sym, rv, sym_log,
                   sym_sqrt)


# ----------------------------------------------------------------------------------
# SymArray
# ----------------------------------------------------------------------------------

class SymArray(_np.ndarray):
    """Object ndarray whose indexing accepts symbolic integers (case split by the
    engine) and whose sort does its comparisons in Python (so that path-steering
    exceptions never cross NumPy's C sort)."""

    def __array_wrap__(self, arr, context=None, return_scalar=False):
        # reductions of object arrays must give the element (a scalar), as they do
        # for plain ndarrays -- the default for subclasses is a 0-d array
        if arr.ndim == 0:
            return arr[()]
        return arr.view(SymArray)

    @staticmethod
    def _norm(idx):
        if isinstance(idx, tuple):
            return tuple(SymArray._norm(i) for i in idx)
        if isinstance(idx, _np.ndarray) and idx.dtype == object:
            flat = [int(v) for v in idx.ravel()]
            return _np.array(flat, dtype=_np.int64).reshape(idx.shape)
        if isinstance(idx, SymInt):
            return int(idx)
        if isinstance(idx, slice):
            f = lambda v: int(v) if isinstance(v, SymInt) else v
            return slice(f(idx.start), f(idx.stop), f(idx.step))
        return idx

    def __getitem__(self, idx):
        return super().__getitem__(self._norm(idx))

    def __setitem__(self, idx, val):
        return super().__setitem__(self._norm(idx), val)

    def astype(self, dtype, *a, **kw):
        # a float cast of symbolic reals is the identity of the exact-real model (rounding is outside the claim)
        try:
            kind = _np.dtype(dtype).kind
        except TypeError:
            kind = None
        if kind == "f" and self.dtype == object and has_sym(self):
            out = _np.empty(self.shape, dtype=object)
            for idx in _np.ndindex(self.shape):
                v = _np.ndarray.__getitem__(self, idx)
                if isinstance(v, SymInt):
                    v = SymReal(z3.ToReal(v.t))
                elif isinstance(v, SymBool):
                    v = SymReal(z3.If(v.t, z3.RealVal(1), z3.RealVal(0)))
                elif not is_sym(v):
                    v = float(v)
                out[idx] = v
            return out.view(SymArray)
        return super().astype(dtype, *a, **kw)

    def argsort(self, axis=-1, kind=None, order=None, **kw):
        if self.ndim != 1:
            if axis is None:
                return self.ravel().view(SymArray).argsort()
            moved = _np.moveaxis(_np.asarray(self), axis, -1)
            out = _np.empty(moved.shape, dtype=_np.int64)
            for lead in _np.ndindex(moved.shape[:-1]):
                out[lead] = moved[lead].view(SymArray).argsort()
            return _np.moveaxis(out, -1, axis)
        vals = list(self)
        idx = list(range(len(vals)))
        # stable insertion sort; comparisons fork through SymBool.__bool__
        for i in range(1, len(idx)):
            j = i
            while j > 0 and bool(vals[idx[j]] < vals[idx[j - 1]]):
                idx[j], idx[j - 1] = idx[j - 1], idx[j]
                j -= 1
        return _np.array(idx, dtype=_np.int64)

    def argmax(self, *a, **kw):
        return arg_extreme(self, "max")

    def argmin(self, *a, **kw):
        return arg_extreme(self, "min")


def as_sym_array(a):
    a = _np.asarray(a)
    if a.dtype != object:
        a = a.astype(object)
    return a.view(SymArray)


def has_sym(a):
    if isinstance(a, _np.ndarray):
        return a.dtype == object and any(is_sym(v) for v in a.ravel())
    return is_sym(a)


def _is_obj(a):
    return isinstance(a, _np.ndarray) and a.dtype == object


def _elementwise(f, x):
    if isinstance(x, _np.ndarray):
        out = _np.empty(x.shape, dtype=object)
        flat_in = x.ravel()
        flat_out = out.ravel()
        for i in range(flat_in.size):
            flat_out[i] = f(flat_in[i])
        return flat_out.reshape(x.shape).view(SymArray)
    return f(x)


def _native_float(v):
    return isinstance(v, (int, float, _np.number)) and not isinstance(v, bool)


def _log1(v):
    if _native_float(v) and not (math.isfinite(v) and v > 0):
        return float(_np.log(_np.float64(v)))
    return sym_log(v)


def _sqrt1(v):
    if _native_float(v) and not (math.isfinite(v) and v >= 0):
        return float(_np.sqrt(_np.float64(v)))
    return sym_sqrt(v)


def arg_extreme(a, kind):
    """First index of the minimum/maximum as a k-way choice."""
    a = _np.asarray(a)
    flat = list(a.ravel())
    if len(flat) == 0:
        raise ValueError(f"attempt to get arg{kind} of an empty sequence")
    if not any(is_sym(v) for v in flat):
        f = _np.array([float(v) for v in flat])
        return int(_np.argmin(f) if kind == "min" else _np.argmax(f))
    ts = []
    for v in flat:
        if isinstance(v, (float, _np.floating)) and (math.isinf(v) or math.isnan(v)):
            ts.append(float(v))
        else:
            ts.append(rv(v))
    opts = []
    for i, ti in enumerate(ts):
        conj = []
        for j, tj in enumerate(ts):
            if j == i:
                continue
            conj.append(_cmp_term(ti, tj, kind, strict=(j < i)))
        opts.append((i, z3.simplify(z3.And(conj)) if conj else z3.BoolVal(True)))
    return Engine.cur.choose(opts)


def _cmp_term(ti, tj, kind, strict):
    """ti beats tj (strictly if required) for min / max, with +-inf support."""
    fi, fj = isinstance(ti, float), isinstance(tj, float)
    if fi or fj:
        vi = ti if fi else 0.0
        vj = tj if fj else 0.0
        if fi and fj:
            res = (vi < vj or (not strict and vi == vj)) if kind == "min" else (vi > vj or (not strict and vi == vj))
        elif fi:   # ti infinite, tj finite
            res = (vi < 0) if kind == "min" else (vi > 0)
        else:      # tj infinite, ti finite
            res = (vj > 0) if kind == "min" else (vj < 0)
        return z3.BoolVal(bool(res))
    if kind == "min":
        return ti < tj if strict else ti <= tj
    return ti > tj if strict else ti >= tj


# ----------------------------------------------------------------------------------
# LAPACK contracts (exact formulas, p <= 4)
# ----------------------------------------------------------------------------------

def det_term(M):
    p = M.shape[0]
    if p == 1:
        return rv(M[0, 0])
    if p == 2:
        return rv(M[0, 0]) * rv(M[1, 1]) - rv(M[0, 1]) * rv(M[1, 0])
    tot = None
    for j in range(p):
        minor = _np.delete(_np.delete(M, 0, 0), j, 1)
        term = rv(M[0, j]) * det_term(minor)
        term = term if j % 2 == 0 else -term
        tot = term if tot is None else tot + term
    return tot


def sym_cov(X, rowvar=True, ddof=None, **kw):
    if kw:
        raise NotImplementedError(f"cov stub: unsupported arguments {sorted(kw)}")
    X = _np.asarray(X)
    if X.ndim == 1:
        X = X.reshape(1, -1)
    if rowvar:
        X = X.T
    n, p = X.shape
    ddof = 1 if ddof is None else ddof
    denom = n - ddof
    mu = []
    for j in range(p):
        s = rv(X[0, j])
        for i in range(1, n):
            s = s + rv(X[i, j])
        mu.append(s / n)
    C = _np.empty((p, p), dtype=object)
    for a in range(p):
        for b in range(a, p):
            s = None
            for i in range(n):
                t = (rv(X[i, a]) - mu[a]) * (rv(X[i, b]) - mu[b])
                s = t if s is None else s + t
            C[a, b] = SymReal(s / denom)
            C[b, a] = C[a, b]
    C = C.view(SymArray)
    return C if p > 1 else C.reshape(())


class LinalgProxy:
    def __getattr__(self, name):
        f = getattr(_np.linalg, name)
        if not callable(f):
            return f

        def guarded(*a, **kw):
            if any(has_sym(x) for x in a):
                raise NotImplementedError(f"np.linalg.{name} has no symbolic contract (symnp.proxy.LinalgProxy)")
            return f(*a, **kw)
        return guarded

    @staticmethod
    def slogdet(M):
        if not has_sym(M):
            return _np.linalg.slogdet(_np.asarray(M, dtype=float))
        M = _np.asarray(M)
        d = det_term(M)
        sign = SymReal(z3.If(d > 0, z3.RealVal(1), z3.If(d < 0, z3.RealVal(-1), z3.RealVal(0))))
        logabs = sym_log(SymReal(z3.If(d >= 0, d, -d)))
        return sign, logabs

    @staticmethod
    def inv(M):
        if not has_sym(M):
            return _np.linalg.inv(_np.asarray(M, dtype=float))
        M = _np.asarray(M, dtype=object)
        p = M.shape[0]
        d = det_term(M)
        out = _np.empty((p, p), dtype=object)
        for i in range(p):
            for j in range(p):
                if p == 1:
                    cof = z3.RealVal(1)
                else:
                    minor = _np.delete(_np.delete(M, j, 0), i, 1)
                    cof = det_term(minor)
                    if (i + j) % 2:
                        cof = -cof
                out[i, j] = SymReal(cof / d)
        return out.view(SymArray)

    @staticmethod
    def det(M):
        if not has_sym(M):
            return _np.linalg.det(_np.asarray(M, dtype=float))
        return SymReal(det_term(_np.asarray(M)))

    @staticmethod
    def cholesky(M, **kw):
        """Lower Cholesky factor by the textbook recurrence (sqrt as a defined algebraic
        number); a matrix that is not positive definite makes the path infeasible."""
        if not has_sym(M):
            return _np.linalg.cholesky(_np.asarray(M, dtype=float), **kw)
        M = _np.asarray(M)
        p = M.shape[0]
        L = _np.empty((p, p), dtype=object)
        L[...] = 0.0
        for i in range(p):
            for j in range(i + 1):
                acc = rv(M[i, j])
                for k in range(j):
                    acc = acc - rv(L[i, k]) * rv(L[j, k])
                if i == j:
                    L[i, j] = sym_sqrt(SymReal(acc))
                else:
                    L[i, j] = SymReal(acc / rv(L[j, j]))
        return L.view(SymArray)

    @staticmethod
    def solve(A, b):
        if not (has_sym(A) or has_sym(b)):
            return _np.linalg.solve(_np.asarray(A, dtype=float), _np.asarray(b, dtype=float))
        return LinalgProxy.inv(_np.asarray(A, dtype=object)) @ _np.asarray(b, dtype=object)

    @staticmethod
    def eigvals(M):
        """For a *symmetric* matrix: a vector that is entrywise positive iff all
        eigenvalues are (leading principal minors, Sylvester).  Only the sign pattern
        is meaningful; harnesses state symmetry as an assumption."""
        if not has_sym(M):
            return _np.linalg.eigvals(_np.asarray(M, dtype=float))
        M = _np.asarray(M)
        p = M.shape[0]
        out = _np.empty(p, dtype=object)
        for k in range(1, p + 1):
            out[k - 1] = SymReal(det_term(M[:k, :k]))
        return out.view(SymArray)


    @staticmethod
    def eigvalsh(M, UPLO="L"):
        """Eigenvalues of a symmetric matrix in ascending order: exact for p = 1 (the entry) and p = 2 (closed form with
        a defined square root); larger symbolic matrices are outside the contract."""
        if not has_sym(M):
            return _np.linalg.eigvalsh(_np.asarray(M, dtype=float), UPLO=UPLO)
        M = _np.asarray(M, dtype=object)
        p = M.shape[0]
        out = _np.empty(p, dtype=object)
        if p == 1:
            out[0] = M[0, 0] if is_sym(M[0, 0]) else SymReal(rv(M[0, 0]))
        elif p == 2:
            a, b, d = M[0, 0], (M[1, 0] if UPLO == "L" else M[0, 1]), M[1, 1]
            half_tr = (a + d) / 2
            r = sym_sqrt(((a - d) / 2) * ((a - d) / 2) + b * b)
            out[0], out[1] = half_tr - r, half_tr + r
        else:
            raise NotImplementedError("np.linalg.eigvalsh on a symbolic matrix larger than 2x2 has no contract in symnp")
        return out.view(SymArray)


# ----------------------------------------------------------------------------------
# the proxy
# ----------------------------------------------------------------------------------

class NpProxy:
    """Forwarding stand-in for the numpy module."""

    def __init__(self):
        self.linalg = LinalgProxy()
        # harness-settable switches
        self.exact = False        # lift log/sqrt of concrete arguments too (Layer A)
        self.object_ints = False  # object arrays hold SymInt (C13): issubdtype shim
        self.float_arrays_as_objects = True

    # array-producing functions whose object-dtype results are handed on as SymArray, so that the methods the
    # code calls on them (astype, argsort, argmax, indexing with symbolic integers) are the symbolic ones
    _VIEWED = frozenset("array asarray asanyarray ascontiguousarray concatenate stack column_stack hstack vstack "
                        "append insert delete where cumsum take_along_axis take repeat tile flip roll copy "
                        "atleast_1d atleast_2d reshape squeeze expand_dims transpose diff outer dot matmul".split())

    def __getattr__(self, name):
        f = getattr(_np, name)
        if name not in self._VIEWED:
            return f

        def viewed(*a, **kw):
            r = f(*a, **kw)
            if type(r) is _np.ndarray and r.dtype == object:
                return r.view(SymArray)
            return r
        viewed.__name__ = name
        self.__dict__[name] = viewed
        return viewed

    # -- constructors ------------------------------------------------------------
    def _obj(self, a):
        if self.float_arrays_as_objects and a.dtype.kind == "f":
            return a.astype(object).view(SymArray)
        if a.dtype == object and type(a) is _np.ndarray:
            # e.g. np.zeros(shape, dtype=x.dtype) with x a symbolic (object) array: the work array can hold terms
            return a.view(SymArray)
        return a

    def zeros(self, shape, dtype=float, **kw):
        return self._obj(_np.zeros(shape, dtype=dtype, **kw))

    def ones(self, shape, dtype=float, **kw):
        return self._obj(_np.ones(shape, dtype=dtype, **kw))

    def empty(self, shape, dtype=float, **kw):
        return self._obj(_np.zeros(shape, dtype=dtype, **kw))

    def full(self, shape, fill_value, dtype=None, **kw):
        if dtype is None and is_sym(fill_value):
            out = _np.empty(shape, dtype=object)
            out[...] = fill_value
            return out.view(SymArray)
        return self._obj(_np.full(shape, fill_value, dtype=dtype, **kw))

    def zeros_like(self, a, dtype=None, **kw):
        a = _np.asarray(a)
        if dtype is None and a.dtype == object:
            r = _np.empty(a.shape, dtype=object)
            r[...] = 0.0
            return r.view(SymArray)
        return self._obj(_np.zeros_like(a, dtype=dtype, **kw))

    def eye(self, *a, **kw):
        return _np.eye(*a, **kw)

    # -- elementwise functions ------------------------------------------------------
    def log(self, x):
        if has_sym(x) or (self.exact and Engine.cur is not None):
            return _elementwise(_log1, x)
        if _is_obj(x):
            x = x.astype(float)
        return _np.log(x)

    def sqrt(self, x):
        if has_sym(x) or (self.exact and Engine.cur is not None):
            return _elementwise(_sqrt1, x)
        if _is_obj(x):
            x = x.astype(float)
        return _np.sqrt(x)

    def abs(self, x):
        if _is_obj(x) or is_sym(x):
            return _elementwise(lambda v: abs(v), x)
        return _np.abs(x)

    absolute = abs

    def isnan(self, x):
        if is_sym(x):
            return False
        if _is_obj(x):
            flat = [isinstance(v, (float, _np.floating)) and math.isnan(v) for v in x.ravel()]
            return _np.array(flat, dtype=bool).reshape(x.shape)
        return _np.isnan(x)

    def _minmax(self, a, b, kind):
        if not (has_sym(a) or has_sym(b)):
            if _is_obj(a):
                a = a.astype(float)
            if _is_obj(b):
                b = b.astype(float)
            return _np.minimum(a, b) if kind == "min" else _np.maximum(a, b)
        A, B = _np.broadcast_arrays(_np.asarray(a, dtype=object), _np.asarray(b, dtype=object))
        out = _np.empty(A.shape, dtype=object)
        for idx in _np.ndindex(A.shape):
            x, y = A[idx], B[idx]
            if not (is_sym(x) or is_sym(y)):
                out[idx] = min(x, y) if kind == "min" else max(x, y)
                continue
            tx, ty = rv(x), rv(y)
            out[idx] = SymReal(z3.If(tx <= ty, tx, ty) if kind == "min" else z3.If(tx >= ty, tx, ty))
        if out.shape == ():
            return out[()]
        return out.view(SymArray)

    def _minmax_kw(self, a, b, kind, out=None, where=True, **kw):
        """ufunc keywords `out=` / `where=`: the mask is decided element by element in Python (a symbolic mask
        forks here, not inside NumPy's C cast), then the plain result is written through it"""
        if kw:
            raise NotImplementedError(f"np.{kind}imum: keyword(s) {sorted(kw)} have no symbolic counterpart")
        r = _np.asarray(self._minmax(a, b, kind))
        if out is None:
            if where is not True:
                raise NotImplementedError(f"np.{kind}imum(where=) without out= leaves entries uninitialised")
            return r
        target = out[0] if isinstance(out, tuple) else out
        mask = _np.broadcast_to(_np.asarray(where, dtype=object), target.shape)
        r = _np.broadcast_to(r, target.shape)
        for idx in _np.ndindex(target.shape):
            if bool(mask[idx]):
                target[idx] = r[idx]
        return target

    def minimum(self, a, b, **kw):
        if kw:
            return self._minmax_kw(a, b, "min", **kw)
        return self._minmax(a, b, "min")

    def maximum(self, a, b, **kw):
        if kw:
            return self._minmax_kw(a, b, "max", **kw)
        return self._minmax(a, b, "max")

    # -- tolerant comparison (decided per element by the engine: each element forks where the path leaves it open) ----
    def isclose(self, a, b, rtol=1e-05, atol=1e-08, equal_nan=False):
        if not (has_sym(a) or has_sym(b) or is_sym(a) or is_sym(b)):
            return _np.isclose(_np.asarray(a, dtype=float) if _is_obj(_np.asarray(a)) else a,
                               _np.asarray(b, dtype=float) if _is_obj(_np.asarray(b)) else b, rtol=rtol, atol=atol, equal_nan=equal_nan)
        A, B = _np.broadcast_arrays(_np.asarray(a, dtype=object), _np.asarray(b, dtype=object))
        out = _np.empty(A.shape, dtype=bool)
        fa, fb, fo = A.ravel(), B.ravel(), out.ravel()
        for i in range(fa.size):
            x, y = fa[i], fb[i]
            d = x - y
            ay = y if not is_sym(y) else None
            lim = atol + rtol * (abs(y))
            fo[i] = bool(abs(d) <= lim)
        res = fo.reshape(A.shape)
        return res if res.shape else bool(res)

    def allclose(self, a, b, rtol=1e-05, atol=1e-08, equal_nan=False):
        return bool(_np.all(self.isclose(a, b, rtol=rtol, atol=atol, equal_nan=equal_nan)))

    # -- reductions with data-dependent control ----------------------------------------
    def argmin(self, a, *args, **kw):
        if _is_obj(_np.asarray(a)):
            return arg_extreme(a, "min")
        return _np.argmin(a, *args, **kw)

    def argmax(self, a, *args, **kw):
        if _is_obj(_np.asarray(a)):
            return arg_extreme(a, "max")
        return _np.argmax(a, *args, **kw)

    def cov(self, X, *a, **kw):
        if has_sym(X):
            return sym_cov(X, *a, **kw)
        if _is_obj(X):
            X = X.astype(float)
        return _np.cov(X, *a, **kw)

    def quantile(self, a, q, **kw):
        if not (has_sym(a) or is_sym(q)):
            if _is_obj(_np.asarray(a)):
                a = _np.asarray(a).astype(float)
            return _np.quantile(a, q, **kw)
        if kw:
            raise NotImplementedError("quantile stub: only the default method is modelled")
        eng = Engine.cur
        vals = [rv(v) for v in _np.asarray(a).ravel()]
        v = eng.fresh("quantile")
        tq = rv(q)
        eng.notes.setdefault("quantile_calls", []).append((vals, tq, v))
        # contract of NumPy's default (linear interpolation) quantile used here:
        #   min(a) <= v <= max(a);  q == 1 -> v == max(a);  q == 0 -> v == min(a)
        ge_some = z3.Or([v >= t for t in vals])
        le_some = z3.Or([v <= t for t in vals])
        is_max = z3.And([v >= t for t in vals])
        is_min = z3.And([v <= t for t in vals])
        eng.assume(z3.And(ge_some, le_some, z3.Implies(tq == 1, is_max), z3.Implies(tq == 0, is_min)))
        return SymReal(v)

    def issubdtype(self, dt, kind):
        if self.object_ints and dt == object and kind is _np.integer:
            return True
        return _np.issubdtype(dt, kind)

    def sort(self, a, *args, **kw):
        if has_sym(a):
            a = _np.asarray(a)
            order = a.view(SymArray).argsort()
            return a[order]
        return _np.sort(a, *args, **kw)


NPX = NpProxy()

_SKCHANGE_LOADED = False


def skchange_modules():
    """All non-test skchange modules (imported on first use)."""
    global _SKCHANGE_LOADED
    import skchange
    if not _SKCHANGE_LOADED:
        for m in pkgutil.walk_packages(skchange.__path__, "skchange."):
            if ".tests" in m.name or m.name.endswith(".conftest"):
                continue
            try:
                importlib.import_module(m.name)
            except Exception:      # optional dependencies
                pass
        _SKCHANGE_LOADED = True
    return [m for name, m in list(sys.modules.items())
            if name.startswith("skchange") and ".tests" not in name and m is not None]


def install(proxy=NPX):
    """Rebind `np` in every skchange module to the proxy.  Returns count."""
    k = 0
    for m in skchange_modules():
        if getattr(m, "np", None) is _np or isinstance(getattr(m, "np", None), NpProxy):
            m.np = proxy
            k += 1
    return k


def uninstall():
    for m in skchange_modules():
        if isinstance(getattr(m, "np", None), NpProxy):
            m.np = _np


@contextlib.contextmanager
def native():
    """Run the unpatched code (real NumPy, no engine) inside a harness."""
    mods = [m for m in skchange_modules() if isinstance(getattr(m, "np", None), NpProxy)]
    saved = [(m, m.np) for m in mods]
    prev = Engine.cur
    for m in mods:
        m.np = _np
    Engine.cur = None
    try:
        yield
    finally:
        for m, p in saved:
            m.np = p
        Engine.cur = prev


@contextlib.contextmanager
def settings(**kw):
    old = {k: getattr(NPX, k) for k in kw}
    for k, v in kw.items():
        setattr(NPX, k, v)
    try:
        yield NPX
    finally:
        for k, v in old.items():
            setattr(NPX, k, v)
