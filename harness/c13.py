"""C13 -- evaluate either rejects a cuts array or scores exactly the cuts it describes.

The cut entries are symbolic integers in the box [-2, n+2]^k; the scorer's own
validation code runs on them (its comparisons fork), surviving paths reach indexing,
where the integers are case-split over all feasible values and NumPy's real indexing
(negative wrap-around, slice truncation) applies."""
from __future__ import annotations

from fractions import Fraction

import numpy as np
import z3

from symnp import proxy
from symnp.core import Engine, SymInt, SymReal, rv
from symnp.drive import Acc, Harness, Job

from .common import col_terms, rss, sym_matrix, tsum

PROPERTY = "C13"
FUNCTIONS = [
    "skchange.base.base_interval_scorer:BaseIntervalScorer.evaluate",
    "skchange.base.base_interval_scorer:BaseIntervalScorer._check_cuts",
    "skchange.utils.validation.cuts:check_cuts_array",
    "skchange.utils.validation.data:as_2d_array",
    "skchange.anomaly_scores.from_cost:LocalAnomalyScore._check_cuts",
    "skchange.anomaly_scores.from_cost:LocalAnomalyScore._evaluate",
    "skchange.change_scores.from_cost:ChangeScore._evaluate",
    "skchange.anomaly_scores.from_cost:Saving._evaluate",
    "skchange.costs.l2_cost:l2_cost_optim",
    "skchange.change_scores.cusum:cusum_score",
    "skchange.anomaly_scores.l2_saving:l2_saving",
    "skchange.costs.gaussian_var_cost:var_from_sums",
    "skchange.costs.gaussian_cov_cost:_gaussian_ll_at_mle_for_segment",
]
BOUNDS = {
    "quick": "one cut row with entries symbolic in [-2, n+2]^k: n=4, p=1 for the eight scorers (k=2,3,4); two-row batch "
             "(one symbolic row next to a valid one) for L2Cost; concrete malformed arrays (float dtype, wrong width, 3-D, empty)",
    "thorough": "n in {4,5,6}, p in {1,2}; two-row batches for every scorer (CUSUM value obligation at n=4, p=1 only)",
}
STUBS = ["np.issubdtype(object, integer) is True while the harness passes object arrays of symbolic integers",
         "np.log Ackermannised, np.sqrt defined algebraic, LAPACK contracts (as in C01)"]
ASSUMPTIONS = ["data entries are arbitrary reals; validity of a cut is 0 <= c1 < ... < ck <= n with the scorer's minimum "
               "spacing (LocalAnomalyScore: inner interval and pooled surroundings >= min_size)"]
OUTSIDE = ["cut entries outside the box", "n beyond the bounds", "ragged / non-numeric inputs"]

SCORERS = ["L2Cost", "GaussianVarCost", "GaussianCovCost", "ChangeScore(L2Cost)", "CUSUM", "Saving(L2Cost)", "L2Saving",
           "LocalAnomalyScore(L2Cost)"]


def build(name, p=1):
    from skchange.anomaly_scores import L2Saving, LocalAnomalyScore, Saving
    from skchange.change_scores import CUSUM, ChangeScore
    from skchange.costs import GaussianCovCost, GaussianVarCost, L2Cost
    return {
        "L2Cost": lambda: (L2Cost(), 2, 1),
        "GaussianVarCost": lambda: (GaussianVarCost(), 2, 2),
        "GaussianCovCost": lambda: (GaussianCovCost(), 2, p + 1),
        "ChangeScore(L2Cost)": lambda: (ChangeScore(L2Cost()), 3, 1),
        "CUSUM": lambda: (CUSUM(), 3, 1),
        "Saving(L2Cost)": lambda: (Saving(L2Cost(0.0)), 2, 1),
        "L2Saving": lambda: (L2Saving(), 2, 1),
        "LocalAnomalyScore(L2Cost)": lambda: (LocalAnomalyScore(L2Cost()), 4, 1),
        # compositions whose minimum size is larger than 1 (validated on symbolic cuts over concrete data: `data="concrete"`)
        "LocalAnomalyScore(GaussianVarCost)": lambda: (LocalAnomalyScore(GaussianVarCost()), 4, 2),
        "LocalAnomalyScore(GaussianCovCost)": lambda: (LocalAnomalyScore(GaussianCovCost()), 4, p + 1),
        "ChangeScore(GaussianCovCost)": lambda: (ChangeScore(GaussianCovCost()), 3, p + 1),
        "Saving(GaussianVarCost)": lambda: (Saving(GaussianVarCost((0.0, 1.0))), 2, 2),
    }[name]()


def concrete_X(n, p):
    """well-conditioned fixed data for the validation-only runs"""
    rng = np.random.default_rng(4 * n + p)
    return np.round(rng.normal(size=(n, p)) * 2, 2) + np.arange(n)[:, None] * 0.37


def valid_term(name, c, n, ms):
    if name.startswith("LocalAnomalyScore"):
        s, a, b, e = c
        return z3.And(0 <= s, s < a, a < b, b < e, e <= n, b - a >= ms, (a - s) + (e - b) >= ms)
    conj = [c[0] >= 0, c[-1] <= n]
    for u, v in zip(c[:-1], c[1:]):
        conj.append(v - u >= ms)
    return z3.And(conj)


def valid_concrete(name, c, n, ms):
    if name.startswith("LocalAnomalyScore"):
        s, a, b, e = c
        return 0 <= s < a < b < e <= n and b - a >= ms and (a - s) + (e - b) >= ms
    return c[0] >= 0 and c[-1] <= n and all(v - u >= ms for u, v in zip(c[:-1], c[1:]))


def definition(name, X, c, j):
    """Defining value for the L2 family (None for the Gaussian costs: see C01)."""
    r = lambda s, e: rss(col_terms(X, s, e, j))
    if name == "L2Cost":
        return r(c[0], c[1])
    if name in ("ChangeScore(L2Cost)", "CUSUM"):
        return r(c[0], c[2]) - r(c[0], c[1]) - r(c[1], c[2])
    if name in ("Saving(L2Cost)", "L2Saving"):
        ts = col_terms(X, c[0], c[1], j)
        return rss(ts, z3.RealVal(0)) - rss(ts)
    if name == "LocalAnomalyScore(L2Cost)":
        s, a, b, e = c
        pooled = col_terms(X, s, a, j) + col_terms(X, b, e, j)
        return r(s, e) - r(a, b) - rss(pooled)
    return None


def make_box(name, n, p=1, extra_row=False, data="symbolic"):
    """data="concrete": only the cut is symbolic (accept / reject is the subject; the value is C01 / C06's), which keeps
    compositions over the Gaussian costs with min_size > 1 within reach (seed C13-e)."""
    X = sym_matrix(n, p) if data == "symbolic" else concrete_X(n, p)
    scorer0, k, ms = build(name, p)
    cv = [z3.Int(f"c{i}") for i in range(k)]
    base = []
    for v in cv:
        base += [v >= -2, v <= n + 2]
    info = dict(scorer=name, n=n, p=p, k=k, extra_row=extra_row, data=data)

    def run(eng, acc):
        with proxy.settings(exact=True, object_ints=True):
            scorer, _, _ = build(name, p)
            scorer.fit(X)
            rows = [[SymInt(v) for v in cv]]
            if extra_row:
                good = {2: [0, n], 3: [0, n // 2, n], 4: [0, 1, n - 1, n]}[k]
                rows = [[SymInt(z3.IntVal(g)) for g in good]] + rows
            cuts = np.array(rows, dtype=object)
            V = valid_term(name, cv, n, ms)
            try:
                out = scorer.evaluate(cuts)
            except ValueError:
                acc.inc("paths_raising_ValueError")
                acc.oblige(eng, "O2.no_valid_cut_rejected", z3.Not(V), info)
                return
            except RuntimeError as ex:
                # documented error of the multivariate cost; the cut must still be valid
                acc.inc("paths_raising_RuntimeError")
                acc.oblige(eng, "O1.no_invalid_cut_accepted", V, dict(info, outcome="RuntimeError"))
                return
            except Exception as ex:
                acc.inc("paths_raising_other")
                m = eng.path_model()
                cut = [m.eval(v, model_completion=True).as_long() for v in cv] if m is not None else None
                acc.concrete("O2.only_ValueError_is_raised", False, dict(info, exception=f"{type(ex).__name__}: {ex}"[:160], cut=cut))
                return
            acc.inc("paths_returning")
            acc.oblige(eng, "O1.no_invalid_cut_accepted", V, dict(info, outcome="returned"))
            # on a returning path the cut is concrete (it reached indexing)
            m = eng.get_model()
            cut = [m.eval(v, model_completion=True).as_long() for v in cv]
            pinned, _ = eng.valid(z3.And([v == c for v, c in zip(cv, cut)]))
            if pinned is True and valid_concrete(name, cut, n, ms) and data == "symbolic":
                row = out[-1]
                ncols = 1 if name == "GaussianCovCost" else p
                acc.concrete("O3.shape", tuple(out.shape) == (len(rows), ncols), dict(info, shape=tuple(out.shape), cut=cut))
                for j in range(min(ncols, len(row))):
                    want = definition(name, X, cut, j)
                    if want is None or (name == "CUSUM" and (n > 4 or p > 1)):
                        # CUSUM's weights are square roots of ratios of the (pinned but symbolic) integers: beyond n=4, p=1
                        # z3 does not decide the identity in 40 s; CUSUM^2 == definition for all cuts is C06's obligation
                        continue
                    got = rv(row[j]) * rv(row[j]) if name == "CUSUM" else rv(row[j])
                    acc.oblige(eng, "O3.value_is_definition", got == want, dict(info, cut=cut, col=j))
            acc.sample(dict(info, accepted_cut=cut))
            if pinned is True and valid_concrete(name, cut, n, ms) and acc.total("witness_tried") < 40 and data == "symbolic":
                # float witness: the returned term at a data point vs the native run on the same cut
                from symnp.witness import FloatEval, close
                acc.inc("witness_tried")
                rng = np.random.default_rng(sum(cut) + 7 * n)
                Xf = rng.integers(-12, 13, size=(n, p)) / 4.0
                env = {f"x_{i}_{j}": Xf[i, j] for i in range(n) for j in range(p)}
                env.update({f"c{i}": c for i, c in enumerate(cut)})
                fe = FloatEval(env, eng)
                try:
                    on_path = all(fe(c) for c in eng.pc[: eng.synced])      # e.g. the variance-floor branch of this path
                except Exception:
                    on_path = False
                if not on_path:
                    acc.inc("witness_point_not_on_path")
                    return
                try:
                    with proxy.native():
                        nat = build(name, p)[0].fit(Xf).evaluate(np.array([cut]))
                    ok = all(close(float(nat[0, j]), float(fe(rv(out[-1][j]))), 1e-7, 1e-7) for j in range(nat.shape[1]))
                except RuntimeError:
                    ok = None
                except Exception as ex:
                    ok = False
                if ok is True:
                    acc.inc("witness_ok")
                elif ok is False:
                    acc.error(f"C13 witness mismatch {name} cut {cut}")

    return Harness(run, base, sliced=True, timeout_ms=25000 if (n <= 4 and p == 1) else 40000, name=f"box {info}")


def make_malformed(n=4, p=1):
    info = dict(part="malformed", n=n, p=p)

    def run(eng, acc):
        Xf = np.arange(n * p, dtype=float).reshape(n, p) ** 1.5
        with proxy.native():
            for name in SCORERS:
                scorer, k, ms = build(name, p)
                scorer.fit(Xf)
                good = {2: [0, n], 3: [0, n // 2, n], 4: [0, 1, n - 1, n]}[k]
                bad_inputs = {
                    "float_dtype": np.array([good], dtype=float),
                    "wrong_width": np.array([good + [n]]),
                    "narrow": np.array([good[:-1]]),
                    "three_dim": np.array([[good]]),
                    "float_list": [[float(g) + 0.5 for g in good]],
                }
                for label, arr in bad_inputs.items():
                    try:
                        scorer.evaluate(arr)
                        ok = False
                        what = "accepted"
                    except ValueError:
                        ok, what = True, "ValueError"
                    except Exception as ex:
                        ok, what = False, f"{type(ex).__name__}: {ex}"[:100]
                    acc.concrete("O4.malformed_arrays_raise_ValueError", ok, dict(info, scorer=name, case=label, outcome=what))
                # well-formed inputs in several containers are accepted
                for label, arr in (("list", [good]), ("1d", good), ("int32", np.array([good], dtype=np.int32))):
                    try:
                        out = scorer.evaluate(arr)
                        ok = out.shape[0] == 1
                    except Exception as ex:
                        ok = False
                    acc.concrete("O4.wellformed_containers_accepted", ok, dict(info, scorer=name, case=label))
        acc.sample(dict(info, cases=["float_dtype", "wrong_width", "narrow", "three_dim", "float_list"]))

    return Harness(run, [], name="malformed")


def jobs(tier):
    M = "harness.c13"
    out = []
    if tier == "quick":
        for name in SCORERS:
            out.append(Job(M, "make_box", dict(name=name, n=4, p=1), split=name.startswith("Local")))
        out.append(Job(M, "make_box", dict(name="L2Cost", n=4, p=1, extra_row=True)))
        for (name, n, p) in (("LocalAnomalyScore(GaussianVarCost)", 5, 1), ("LocalAnomalyScore(GaussianCovCost)", 6, 2), ("ChangeScore(GaussianCovCost)", 6, 2),
                             ("Saving(GaussianVarCost)", 4, 1), ("GaussianCovCost", 6, 3), ("ChangeScore(GaussianCovCost)", 8, 3)):
            out.append(Job(M, "make_box", dict(name=name, n=n, p=p, data="concrete"), split=True))
        out.append(Job(M, "make_malformed", dict(n=4, p=1)))
    else:
        for name in SCORERS:
            for (n, p) in ((4, 1), (5, 1), (6, 1), (4, 2), (5, 2)):
                if name == "GaussianCovCost" and (n, p) == (5, 2):
                    continue      # nlsat finds no model of the definiteness branches within 40 s at this size
                out.append(Job(M, "make_box", dict(name=name, n=n, p=p), split=True))
            out.append(Job(M, "make_box", dict(name=name, n=4, p=1, extra_row=True), split=True))
        for (name, n, p) in (("LocalAnomalyScore(GaussianVarCost)", 6, 1), ("LocalAnomalyScore(GaussianVarCost)", 5, 2), ("LocalAnomalyScore(GaussianCovCost)", 6, 2),
                             ("LocalAnomalyScore(GaussianCovCost)", 7, 2), ("ChangeScore(GaussianCovCost)", 6, 2), ("ChangeScore(GaussianCovCost)", 8, 3),
                             ("Saving(GaussianVarCost)", 5, 2), ("GaussianCovCost", 6, 3), ("GaussianCovCost", 7, 4), ("LocalAnomalyScore(GaussianCovCost)", 9, 3)):
            out.append(Job(M, "make_box", dict(name=name, n=n, p=p, data="concrete"), split=True))
        out.append(Job(M, "make_malformed", dict(n=5, p=2)))
    return out


def replay(cx):
    info = cx.get("info") or {}
    model = cx.get("model") or {}
    ob = cx["ob"]
    if info.get("part") == "malformed":
        name, case, n, p = info["scorer"], info["case"], info["n"], info["p"]
        with proxy.native():
            scorer, k, ms = build(name, p)
            scorer.fit(np.arange(n * p, dtype=float).reshape(n, p) ** 1.5)
            good = {2: [0, n], 3: [0, n // 2, n], 4: [0, 1, n - 1, n]}[k]
            arr = {"float_dtype": np.array([good], dtype=float), "wrong_width": np.array([good + [n]]), "narrow": np.array([good[:-1]]),
                   "three_dim": np.array([[good]]), "float_list": [[float(g) + 0.5 for g in good]], "list": [good], "1d": good,
                   "int32": np.array([good], dtype=np.int32)}[case]
            try:
                scorer.evaluate(arr)
                outcome = "accepted"
            except ValueError:
                outcome = "ValueError"
            except Exception as ex:
                outcome = type(ex).__name__
        expect = "accepted" if case in ("list", "1d", "int32") else "ValueError"
        return dict(reproduced=outcome != expect, key=f"{ob}|{case}", what=f"{name}.evaluate({case} array {arr!r}) -> {outcome}, expected {expect}")
    name, n, p, k = info["scorer"], info["n"], info["p"], info["k"]
    cut = info.get("cut") or [int(Fraction(model.get(f"c{i}", "0"))) for i in range(k)]
    Xf = np.array([[float(Fraction(model.get(f"x_{i}_{j}", str(Fraction(i * i + 3 * j + 1, 2))))) for j in range(p)] for i in range(n)])
    if info.get("data") == "concrete":
        Xf = concrete_X(n, p)
    with proxy.native():
        scorer, _, ms = build(name, p)
        scorer.fit(Xf)
        rows = [cut]
        if info.get("extra_row"):
            rows = [{2: [0, n], 3: [0, n // 2, n], 4: [0, 1, n - 1, n]}[k]] + rows
        try:
            out = scorer.evaluate(np.array(rows))
            outcome = "returned " + str(np.asarray(out).tolist())
        except ValueError as ex:
            outcome = "ValueError"
        except RuntimeError as ex:
            outcome = "RuntimeError"
        except Exception as ex:
            outcome = f"{type(ex).__name__}: {ex}"[:120]
    valid = valid_concrete(name, cut, n, ms)
    if valid:
        bad = outcome == "ValueError" or not (outcome.startswith("returned") or outcome == "RuntimeError")
        kind = "valid cut rejected"
    else:
        bad = outcome != "ValueError"
        kind = "invalid cut not rejected with ValueError"
        if outcome.startswith("returned"):
            kind = "invalid cut evaluated silently"
    cls = "negative" if min(cut) < 0 else ("beyond_n" if max(cut) > n else "other")
    return dict(reproduced=bool(bad), key=f"{kind}|{cls}", what=f"{name}.fit(X with {n} rows).evaluate({rows}) -> {outcome}; cut is {'valid' if valid else 'invalid'} ({kind})")
