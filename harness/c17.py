"""C17 -- StatThresholdAnomaliser flags exactly the out-of-range segments."""
from __future__ import annotations

import copy
from fractions import Fraction

import numpy as np
import pandas as pd
import z3

from symnp import proxy
from symnp.core import Engine, SymInt, SymReal, rv
from symnp.drive import Acc, Harness, Job

from .scorers import TableChangeScore, TableCost, values_from_model
from .wellformed import check_anomalies, problems_anomalies

from skchange.change_detectors.base import ChangeDetector

PROPERTY = "C17"
FUNCTIONS = [
    "skchange.anomaly_detectors.anomalisers:StatThresholdAnomaliser.__init__",
    "skchange.anomaly_detectors.anomalisers:StatThresholdAnomaliser._fit",
    "skchange.anomaly_detectors.anomalisers:StatThresholdAnomaliser._predict",
    "skchange.change_detectors.base:ChangeDetector.sparse_to_dense",
    "skchange.base.base_detector:BaseDetector.transform",
    "skchange.anomaly_detectors.base:CollectiveAnomalyDetector._format_sparse_output",
]
BOUNDS = {
    "quick": "stub change detector returning any changepoint list 0 < c1 < ... < ck < n (symbolic integers, k<=3), n<=6, "
             "user statistic returning one free real per segment, symbolic bounds lower <= upper; real PELT / MovingWindow / "
             "SeededBinarySegmentation with table scorers inside, n<=4",
    "thorough": "stub: n<=8, k<=4; real inner detectors n<=5 (MovingWindow 6)",
}
STUBS = ["StubChangeDetector: user-defined ChangeDetector returning the given changepoints",
         "stat callable: one free real per (first row, last row) of the segment it is handed (X carries its row numbers)",
         "table scorers inside the real inner detectors"]
ASSUMPTIONS = ["univariate DataFrame input; the stub runs repeat the prediction under an offset RangeIndex and a DatetimeIndex (other containers: C11)", "stat_lower <= stat_upper"]
OUTSIDE = ["more than 3 changepoints", "n beyond the bounds"]


class StubChangeDetector(ChangeDetector):
    """User-defined change detector: reports exactly the changepoints it was given."""

    _tags = {"capability:missing_values": False, "capability:multivariate": True, "fit_is_empty": False}

    def __init__(self, cpts=()):
        self.cpts = cpts
        super().__init__()

    def _fit(self, X, y=None):
        self.fitted_on_ = len(X)
        return self

    def _predict(self, X):
        return ChangeDetector._format_sparse_output([int(c) for c in self.cpts])


def seg_stat(values):
    arr = np.asarray(values)
    if arr.ndim != 1:
        raise TypeError(f"the statistic was handed an array of shape {arr.shape} instead of the segment's values as a 1-D sequence")
    first, last = int(round(float(arr[0]))), int(round(float(arr[-1])))
    return SymReal(z3.Real(f"st_{first}_{last}"))


def rows_X(n):
    return pd.DataFrame({"x": np.arange(n, dtype=float)})


def expected_from_path(eng, cpts, n, lo, hi):
    b = [0] + list(cpts) + [n]
    out, undecided = [], []
    for s, e in zip(b[:-1], b[1:]):
        st = z3.Real(f"st_{s}_{e - 1}")
        flag = z3.Or(st < lo, st > hi)
        ok, _ = eng.valid(flag)
        if ok is True:
            out.append((s, e))
            continue
        ok2, _ = eng.valid(z3.Not(flag))
        if ok2 is not True:
            undecided.append((s, e))
    return out, undecided


def make_stub(n, k, mode="c17"):
    cps = [z3.Int(f"cp{i}") for i in range(k)]
    lo, hi = z3.Real("lo"), z3.Real("hi")
    base = [lo <= hi] + [c > 0 for c in cps] + [c < n for c in cps] + [a < b for a, b in zip(cps[:-1], cps[1:])]
    X = rows_X(n)
    info = dict(inner="stub", n=n, k=k)

    def run(eng, acc):
        from skchange.anomaly_detectors import StatThresholdAnomaliser
        user = StubChangeDetector(cpts=tuple(SymInt(c) for c in cps))
        before = dict(user.__dict__)
        try:
            an = StatThresholdAnomaliser(user, stat=seg_stat, stat_lower=SymReal(lo), stat_upper=SymReal(hi))
            an.fit(X)
            out = an.predict(X)
        except Exception as ex:
            acc.concrete("runs_to_completion", False, dict(info, exception=f"{type(ex).__name__}: {ex}"[:200]), eng=eng)
            return
        acc.concrete("runs_to_completion", True)
        check_anomalies(acc, out, n, info, "StatThresholdAnomaliser", eng=eng, min_len=1)
        if mode == "c04":
            return
        m = eng.get_model()
        cc = [m.eval(c, model_completion=True).as_long() for c in cps]
        pinned, _ = eng.valid(z3.And([c == v for c, v in zip(cps, cc)]))
        acc.concrete("changepoints_concrete_on_path", pinned is True, dict(info, cpts=cc), eng=eng)
        got = [(int(i.left), int(i.right)) for i in out["ilocs"]]
        want, undecided = expected_from_path(eng, cc, n, lo, hi)
        acc.concrete("flag_decided_by_path", not undecided, dict(info, cpts=cc, undecided=undecided), eng=eng)
        acc.concrete("anomalies_are_exactly_the_out_of_range_segments", got == want, dict(info, cpts=cc, got=got, want=want), eng=eng)
        acc.concrete("user_detector_not_fitted_or_altered",
                     (not user.is_fitted) and set(user.__dict__) == set(before) and all(user.__dict__[k_] is before[k_] for k_ in before),
                     dict(info, attrs=sorted(set(user.__dict__) ^ set(before))), eng=eng)
        acc.concrete("clone_is_a_different_fitted_object", an.change_detector_ is not user and an.change_detector_.is_fitted, info, eng=eng)
        # the same data under other supported indexes must give the same anomalies
        for kind, idx in (("range5", pd.RangeIndex(5, 5 + n)), ("datetime", pd.date_range("2022-01-01", periods=n, freq="D"))):
            Xi = pd.DataFrame({"x": np.arange(n, dtype=float)}, index=idx)
            try:
                an2 = StatThresholdAnomaliser(StubChangeDetector(cpts=tuple(cc)), stat=seg_stat, stat_lower=SymReal(lo), stat_upper=SymReal(hi)).fit(Xi)
                got2 = [(int(i.left), int(i.right)) for i in an2.predict(Xi)["ilocs"]]
            except Exception as ex:
                got2 = f"{type(ex).__name__}: {ex}"[:120]
            acc.concrete("same_anomalies_under_other_index", got2 == want, dict(info, cpts=cc, index=kind, got=got2, want=want), eng=eng)
        acc.add_to("outputs", (tuple(cc), tuple(got)))
        acc.sample(dict(info, cpts=cc, anomalies=got))
        _witness(eng, acc, n, cc, got)

    return Harness(run, base, name=f"stub {info}")


def _witness(eng, acc, n, cc, got, cap=60):
    """native run with a model of the path (margin on the flag comparisons)"""
    from symnp.witness import robust_model
    from .common import model_env
    if acc.total("witness_tried") >= cap:
        return
    acc.inc("witness_tried")
    model, _ = robust_model(eng)
    if model is None:
        acc.inc("witness_tie_only_path")
        return
    env = model_env(model)
    from skchange.anomaly_detectors import StatThresholdAnomaliser
    with proxy.native():
        try:
            out = StatThresholdAnomaliser(StubChangeDetector(cpts=tuple(cc)), stat=_num_stat(env), stat_lower=env.get("lo", 0.0),
                                          stat_upper=env.get("hi", 0.0)).fit(rows_X(n)).predict(rows_X(n))
            nat = [(int(i.left), int(i.right)) for i in out["ilocs"]]
        except Exception as ex:
            acc.error(f"C17 witness: native run raised {type(ex).__name__}: {ex}")
            return
    if nat == got:
        acc.inc("witness_ok")
    else:
        acc.error(f"C17 witness mismatch: symbolic {got} native {nat} (cpts {cc}, env {env})")


def _inner(kind, n, values=None, scale=None):
    from skchange.change_detectors import PELT, MovingWindow, SeededBinarySegmentation
    sc = SymReal(z3.Real("iscale")) if scale is None else float(scale)
    if kind == "PELT":
        return PELT(TableCost(p=1, values=values), penalty_scale=sc, min_segment_length=1)
    if kind == "MovingWindow":
        return MovingWindow(TableChangeScore(p=1, values=values), bandwidth=1, threshold_scale=sc)
    return SeededBinarySegmentation(TableChangeScore(p=1, values=values), threshold_scale=sc, min_segment_length=1,
                                    max_interval_length=200, growth_factor=2.0)


def make_real(kind, n, mode="c17"):
    lo, hi = z3.Real("lo"), z3.Real("hi")
    base = [lo <= hi, z3.Real("iscale") >= 0]
    if kind == "PELT":
        from .c02 import split_inequalities
        base += split_inequalities(n, 1, 1)
    X = rows_X(n)
    info = dict(inner=kind, n=n)

    def run(eng, acc):
        from skchange.anomaly_detectors import StatThresholdAnomaliser
        user = _inner(kind, n)
        try:
            an = StatThresholdAnomaliser(user, stat=seg_stat, stat_lower=SymReal(lo), stat_upper=SymReal(hi))
            an.fit(X)
            out = an.predict(X)
            cc = [int(c) for c in _inner(kind, n).fit(X).predict(X)["ilocs"]]
        except Exception as ex:
            acc.concrete("runs_to_completion", False, dict(info, exception=f"{type(ex).__name__}: {ex}"[:200]), eng=eng)
            return
        acc.concrete("runs_to_completion", True)
        check_anomalies(acc, out, n, info, "StatThresholdAnomaliser", eng=eng, min_len=1)
        if mode == "c04":
            return
        got = [(int(i.left), int(i.right)) for i in out["ilocs"]]
        want, undecided = expected_from_path(eng, cc, n, lo, hi)
        acc.concrete("flag_decided_by_path", not undecided, dict(info, cpts=cc, undecided=undecided), eng=eng)
        acc.concrete("anomalies_are_exactly_the_out_of_range_segments_of_the_wrapped_detector", got == want,
                     dict(info, cpts=cc, got=got, want=want), eng=eng)
        acc.concrete("user_detector_not_fitted_or_altered", not user.is_fitted and not hasattr(user, "scores"), info, eng=eng)
        acc.add_to("outputs", (tuple(cc), tuple(got)))
        acc.sample(dict(info, cpts=cc, anomalies=got))

    return Harness(run, base, name=f"real {info}")


def make_bounds():
    lo, hi = z3.Real("lo"), z3.Real("hi")
    base = [lo >= -3, lo <= 3, hi >= -3, hi <= 3]

    def run(eng, acc):
        from skchange.anomaly_detectors import StatThresholdAnomaliser
        info = dict(inner="bounds")
        try:
            StatThresholdAnomaliser(StubChangeDetector(cpts=(1,)), stat=seg_stat, stat_lower=SymReal(lo), stat_upper=SymReal(hi))
        except ValueError:
            acc.oblige(eng, "lower_above_upper_raises_ValueError.only_then", lo > hi, info)
            return
        except Exception as ex:
            acc.concrete("lower_above_upper_raises_ValueError", False, dict(info, exception=f"{type(ex).__name__}: {ex}"[:160]), eng=eng)
            return
        acc.oblige(eng, "lower_above_upper_raises_ValueError", lo <= hi, info)

    return Harness(run, base, name="bounds")


# ---------------------------------------------------------------------------------- real NumPy statistics

NUMPY_STATS = ("mean", "var", "std", "median", "max", "min", "sum")


def _ref_stat_flag(name, xs, lo, hi):
    """z3 formula 'the statistic <name> of the reals xs is < lo or > hi', written from the textbook definition
    (population variance / standard deviation, i.e. NumPy's default ddof=0), independently of NumPy."""
    m = len(xs)
    tot = xs[0]
    for x in xs[1:]:
        tot = tot + x
    mean = tot / m
    if name in ("mean", "sum"):
        st = mean if name == "mean" else tot
        return z3.Or(st < lo, st > hi)
    if name in ("var", "std"):
        var = sum(((x - mean) * (x - mean) for x in xs[1:]), (xs[0] - mean) * (xs[0] - mean)) / m
        if name == "var":
            return z3.Or(var < lo, var > hi)
        # std = sqrt(var) >= 0:  std < lo <=> lo > 0 and var < lo^2;  std > hi <=> hi < 0 or var > hi^2
        return z3.Or(z3.And(lo > 0, var < lo * lo), hi < 0, var > hi * hi)
    mx, mn = xs[0], xs[0]
    for x in xs[1:]:
        mx = z3.If(x > mx, x, mx)
        mn = z3.If(x < mn, x, mn)
    if name == "max":
        return z3.Or(mx < lo, mx > hi)
    if name == "min":
        return z3.Or(mn < lo, mn > hi)
    # median: sort with a compare-exchange network of if-then-else terms, then the middle element / mean of the two middle ones
    srt = list(xs)
    for i in range(m):
        for j in range(m - 1 - i):
            a, b = srt[j], srt[j + 1]
            srt[j], srt[j + 1] = z3.If(a <= b, a, b), z3.If(a <= b, b, a)
    med = srt[m // 2] if m % 2 else (srt[m // 2 - 1] + srt[m // 2]) / 2
    return z3.Or(med < lo, med > hi)


def make_numpy(n, stat):
    """The statistic is a *real NumPy reduction* applied to symbolic data: the anomaliser must flag exactly the segments
    whose statistic, by its textbook definition, lies outside [lower, upper] (seed C17-d: a reduction that is silently
    replaced by a similarly named one with another definition)."""
    lo, hi = z3.Real("lo"), z3.Real("hi")
    xs = [z3.Real(f"x_{i}") for i in range(n)]
    base = [lo <= hi]
    cpt_sets = [c for k in range(0, 3) for c in __import__("itertools").combinations(range(1, n), k)]
    hs = []

    def harness(cc):
        info = dict(inner="numpy", stat=stat, n=n, cpts=list(cc))

        def run(eng, acc):
            from skchange.anomaly_detectors import StatThresholdAnomaliser
            X = pd.DataFrame({"x": np.array([SymReal(x) for x in xs], dtype=object)})
            try:
                an = StatThresholdAnomaliser(StubChangeDetector(cpts=tuple(cc)), stat=getattr(np, stat), stat_lower=SymReal(lo), stat_upper=SymReal(hi))
                out = an.fit(X).predict(X)
            except Exception as ex:
                acc.concrete("runs_to_completion", False, dict(info, exception=f"{type(ex).__name__}: {ex}"[:200]), eng=eng)
                return
            got = [(int(i.left), int(i.right)) for i in out["ilocs"]]
            b = [0] + list(cc) + [n]
            for s, e in zip(b[:-1], b[1:]):
                flag = _ref_stat_flag(stat, xs[s:e], lo, hi)
                acc.oblige(eng, "numpy_stat.segment_flagged_iff_statistic_out_of_range", flag if (s, e) in got else z3.Not(flag),
                           dict(info, segment=(s, e), flagged=(s, e) in got))
            acc.concrete("numpy_stat.only_segments_reported", all(g in list(zip(b[:-1], b[1:])) for g in got), dict(info, got=got), eng=eng)
            acc.sample(dict(info, anomalies=got))

        return Harness(run, base, sliced=True, timeout_ms=10000, name=f"numpy {info}")

    for cc in cpt_sets:
        hs.append(harness(cc))
    return hs


def jobs(tier, mode="c17"):
    M = "harness.c17"
    out = []
    if tier == "quick":
        stub = [(2, 1), (3, 2), (4, 2), (5, 3), (6, 2)]
        real = [("PELT", 4), ("MovingWindow", 4), ("SBS", 4)]
    else:
        stub = [(n, k) for n in range(2, 9) for k in range(0, 5) if k < n]
        real = [("PELT", 4), ("PELT", 5), ("MovingWindow", 5), ("MovingWindow", 6), ("SBS", 4), ("SBS", 5)]
    for (n, k) in stub:
        out.append(Job(M, "make_stub", dict(n=n, k=k, mode=mode), split=n >= 5))
    for (kind, n) in real:
        out.append(Job(M, "make_real", dict(kind=kind, n=n, mode=mode), split=True))
    if mode == "c17":
        out.append(Job(M, "make_bounds", {}))
        for stat in NUMPY_STATS:
            out.append(Job(M, "make_numpy", dict(n=4 if tier == "quick" else 5, stat=stat)))
    return out


def _num_stat(env):
    def f(values):
        arr = np.asarray(values)
        if arr.ndim != 1:
            raise TypeError(f"the statistic was handed an array of shape {arr.shape} instead of the segment's values as a 1-D sequence")
        first, last = int(round(float(arr[0]))), int(round(float(arr[-1])))
        return env.get(f"st_{first}_{last}", 0.0)
    return f


def replay(cx):
    from skchange.anomaly_detectors import StatThresholdAnomaliser
    info = cx.get("info") or {}
    model = cx.get("model") or {}
    ob = cx["ob"]
    env = {}
    for k, v in model.items():
        try:
            env[k] = float(Fraction(v))
        except Exception:
            pass
    inner = info.get("inner")
    lo, hi = env.get("lo", -1.0), env.get("hi", 1.0)
    if inner == "bounds":
        try:
            StatThresholdAnomaliser(StubChangeDetector(cpts=(1,)), stat=np.mean, stat_lower=lo, stat_upper=hi)
            outcome = "constructed"
        except ValueError:
            outcome = "ValueError"
        except Exception as ex:
            outcome = f"{type(ex).__name__}: {ex}"[:100]
        want = "ValueError" if lo > hi else "constructed"
        return dict(reproduced=outcome != want, key=f"bounds|{outcome.split(':')[0]}",
                    what=f"StatThresholdAnomaliser(stat_lower={lo}, stat_upper={hi}) -> {outcome}, expected {want}")
    n = info["n"]
    if inner == "numpy":
        import statistics as st_
        ref = dict(mean=st_.fmean, var=st_.pvariance, std=st_.pstdev, median=st_.median, max=max, min=min, sum=sum)[info["stat"]]
        cc = info["cpts"]
        b = [0] + list(cc) + [n]
        segs = list(zip(b[:-1], b[1:]))
        # the model's point first; if the symbolic run could not be completed (no informative model) or the point does not
        # separate, deterministic data with bounds placed 10 % beside each segment's statistic are tried as well --
        # a reproduced violation needs one concrete failing input, any one
        tries = [([env.get(f"x_{i}", 0.0) for i in range(n)], lo, hi)]
        rng = np.random.default_rng(17)
        for _ in range(4):
            xs_ = [float(v) for v in rng.integers(-6, 7, size=n)]
            for (s_, e_) in segs:
                v = float(ref(xs_[s_:e_]))
                d = 0.1 * abs(v) + 0.05
                tries += [(xs_, -1e9, v + d), (xs_, v - d, 1e9)]
        tol = 1e-9
        for xs, lo_, hi_ in tries:
            with proxy.native():
                try:
                    out = StatThresholdAnomaliser(StubChangeDetector(cpts=tuple(cc)), stat=getattr(np, info["stat"]), stat_lower=lo_, stat_upper=hi_).fit(
                        pd.DataFrame({"x": xs})).predict(pd.DataFrame({"x": xs}))
                except Exception as ex:
                    return dict(reproduced=True, key=f"numpy_stat|{info['stat']}|{type(ex).__name__}",
                                what=f"StatThresholdAnomaliser(stat=np.{info['stat']}) on x={xs}, changepoints {cc} raised {type(ex).__name__}: {ex}"[:500])
            got = [(int(i.left), int(i.right)) for i in out["ilocs"]]
            vals = {se: float(ref(xs[se[0]:se[1]])) for se in segs}
            want_sure = [se for se, v in vals.items() if v < lo_ - tol or v > hi_ + tol]
            not_sure = [se for se, v in vals.items() if abs(v - lo_) <= tol or abs(v - hi_) <= tol]
            badl = [se for se in want_sure if se not in got] + [se for se in got if se not in want_sure and se not in not_sure]
            if badl:
                return dict(reproduced=True, key=f"numpy_stat|{info['stat']}",
                            what=f"StatThresholdAnomaliser(stat=np.{info['stat']}, [{lo_}, {hi_}]) on x={xs}, changepoints {cc}: reported {got}, but the segment "
                                 f"statistics are { {str(k): round(v, 6) for k, v in vals.items()} }")
        return dict(reproduced=False, key=f"numpy_stat|{info['stat']}", what=f"np.{info['stat']}: flags agree with the definition at the model point and at {len(tries) - 1} further points")
    X = rows_X(n)
    with proxy.native():
        if inner == "stub":
            cc = info.get("cpts") or [int(env.get(f"cp{i}", i + 1)) for i in range(info["k"])]
            user = StubChangeDetector(cpts=tuple(cc))
        else:
            vals = {k: v for k, v in env.items() if k.startswith("T_") or k.startswith("co_")}
            user = _inner(inner, n, values=vals, scale=env.get("iscale", 0.0))
            cc = [int(c) for c in _inner(inner, n, values=vals, scale=env.get("iscale", 0.0)).fit(X).predict(X)["ilocs"]]
        try:
            an = StatThresholdAnomaliser(user, stat=_num_stat(env), stat_lower=lo, stat_upper=hi).fit(X)
            out = an.predict(X)
        except Exception as ex:
            return dict(reproduced=True, key=f"runs_to_completion|{type(ex).__name__}", what=f"StatThresholdAnomaliser over {inner} on n={n} raised {type(ex).__name__}: {ex}")
    got = [(int(i.left), int(i.right)) for i in out["ilocs"]]
    b = [0] + list(cc) + [n]
    want = [(s, e) for s, e in zip(b[:-1], b[1:]) if env.get(f"st_{s}_{e - 1}", 0.0) < lo or env.get(f"st_{s}_{e - 1}", 0.0) > hi]
    bad = problems_anomalies(out, n, min_len=1)
    if info.get("index") and inner == "stub":
        idx = pd.RangeIndex(5, 5 + n) if info["index"] == "range5" else pd.date_range("2022-01-01", periods=n, freq="D")
        Xi = pd.DataFrame({"x": np.arange(n, dtype=float)}, index=idx)
        with proxy.native():
            try:
                o2 = StatThresholdAnomaliser(StubChangeDetector(cpts=tuple(cc)), stat=_num_stat(env), stat_lower=lo, stat_upper=hi).fit(Xi).predict(Xi)
                g2 = [(int(i.left), int(i.right)) for i in o2["ilocs"]]
            except Exception as ex:
                g2 = f"{type(ex).__name__}: {ex}"[:120]
        if g2 != want:
            bad.append(f"with a {info['index']} index: reported {g2}, expected {want}")
    if got != want:
        bad.append(f"changepoints {cc}, segment statistics { {k: v for k, v in env.items() if k.startswith('st_')} }, bounds [{lo}, {hi}]: reported {got}, expected {want}")
    if user.is_fitted:
        bad.append("the user's detector object was fitted")
    if an.change_detector_ is user:
        bad.append("change_detector_ is the user's object, not a clone")
    return dict(reproduced=bool(bad), key=ob, what=f"StatThresholdAnomaliser over {inner} (n={n}): " + "; ".join(bad)[:600])
