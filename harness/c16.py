"""C16 -- MVCAPA's affected columns are the optimal sparse subset for each anomaly."""
from __future__ import annotations

import itertools
import math
from fractions import Fraction

import numpy as np
import pandas as pd
import z3

from symnp import proxy
from symnp.core import SymReal, rv
from symnp.drive import Acc, Harness, Job
from symnp.witness import robust_model

from .common import model_env, tsum
from .scorers import TableSaving

PROPERTY = "C16"
FUNCTIONS = [
    "skchange.anomaly_detectors.mvcapa:find_affected_components",
    "skchange.anomaly_detectors.mvcapa:run_mvcapa",
    "skchange.anomaly_detectors.mvcapa:sparse_mvcapa_penalty",
    "skchange.anomaly_detectors.mvcapa:MVCAPA._predict",
    "skchange.anomaly_detectors.base:SubsetCollectiveAnomalyDetector.sparse_to_dense",
    "skchange.anomaly_detectors.base:SubsetCollectiveAnomalyDetector._format_sparse_output",
    "skchange.base.base_detector:BaseDetector.transform",
]
BOUNDS = {
    "quick": "MVCAPA runs with table savings and user penalty callables: p=2, n=2 (three penalty regimes), n=3 (dense "
             "regime); find_affected_components as a unit on one interval with symbolic savings, alpha and betas: p<=5",
    "thorough": "MVCAPA runs p=2: n=2 in four regimes, n=3 dense/general; p=3: n=2 general/sparse; unit p<=6",
}
STUBS = ["TableSaving (free reals per cut and column)", "user penalty callables returning symbolic (alpha, betas)"]
ASSUMPTIONS = ["savings >= 0 (detector runs); penalties >= 0; any maximiser is accepted on ties, so no distinctness "
               "assumption is needed", "sparse penalty beta = 2*scale*log(n_params*p) transcribed independently from the docstring"]
OUTSIDE = ["p > 6", "n beyond the bounds"]


def subset_dominance(value, vals, betas):
    """value >= sum_J vals - sum_{i<|J|} betas_i for every non-empty column subset J"""
    p = len(vals)
    cs = []
    for k in range(1, p + 1):
        pen = tsum(betas[:k])
        for J in itertools.combinations(range(p), k):
            cs.append(value >= tsum([vals[j] for j in J]) - pen)
    return z3.And(cs)


def column_obligations(eng, acc, cols, vals, betas, info):
    p = len(vals)
    ok = len(cols) >= 1 and len(set(cols)) == len(cols) and all(0 <= c < p for c in cols)
    acc.concrete("icolumns.nonempty_distinct_valid", ok, dict(info, icolumns=cols), eng=eng)
    if not ok:
        return
    k = len(cols)
    order = [vals[cols[i]] >= vals[cols[i + 1]] for i in range(k - 1)]
    if order:
        acc.oblige(eng, "icolumns.decreasing_saving", z3.And(order), dict(info, icolumns=cols))
    excluded = [x for x in range(p) if x not in cols]
    if excluded:
        acc.oblige(eng, "icolumns.no_excluded_column_beats_included", z3.And([vals[c] >= vals[x] for c in cols for x in excluded]),
                   dict(info, icolumns=cols))
    value = tsum([vals[c] for c in cols]) - tsum(betas[:k])
    acc.oblige(eng, "icolumns.k_maximises_penalised_saving", subset_dominance(value, vals, betas), dict(info, icolumns=cols))


def affected_obligations(eng, acc, det, out, X, anoms, cols, n, p, m, info, pa, pb, cscale, colmap=None):
    """Called from the MVCAPA harness of C03 (mode 'c16') on every path.  colmap[k]: which variable's savings stand
    in column position k of the frame passed to predict (identity unless the caller reordered labelled columns)."""
    beta_s = 2 * cscale * z3.RealVal(Fraction(math.log(1 * p)))
    cm = list(range(p)) if colmap is None else list(colmap)
    for (s, e), cl in zip(anoms, cols):
        if e - s == 1:
            vals = [z3.Real(f"P_{s}_{e}_{cm[j]}") for j in range(p)]
            betas = list(pb)
            kind = "point"
        else:
            vals = [z3.Real(f"S_{s}_{e}_{cm[j]}") for j in range(p)]
            betas = [beta_s] * p
            kind = "collective"
        column_obligations(eng, acc, cl, vals, betas, dict(info, anomaly=(s, e), kind=kind))
    # transform marks exactly these columns on exactly these rows
    try:
        dense = det.transform(X)
    except Exception as ex:
        acc.concrete("transform.runs", False, dict(info, exception=f"{type(ex).__name__}: {ex}"[:200]), eng=eng)
        return
    want = np.zeros((n, p), dtype=int)
    for lab, ((s, e), cl) in enumerate(zip(anoms, cols), start=1):
        for c in cl:
            want[s:e, c] = lab
    got = np.asarray(dense.values)
    acc.concrete("transform.marks_exactly_affected_cells", got.shape == want.shape and bool((got == want).all()),
                 dict(info, anomalies=anoms, icolumns=cols, dense=got.tolist()), eng=eng)
    acc.sample(dict(info, anomalies=anoms, icolumns=cols))


def make_unit(p, nbetas="general"):
    """find_affected_components on one interval with symbolic savings and penalties."""
    alpha = z3.Real("alpha")
    betas = [z3.Real(f"beta_{k}") for k in range(p)]
    base = [alpha >= 0] + [b >= 0 for b in betas]
    if nbetas == "equal":
        base += [b == betas[0] for b in betas[1:]]
    n = 3
    X = pd.DataFrame(np.zeros((n, p)))
    info = dict(unit="find_affected_components", p=p, betas=nbetas)

    def run(eng, acc):
        try:
            from skchange.anomaly_detectors.mvcapa import find_affected_components
        except ImportError:
            acc.inc("skipped_anchor_not_found")      # internal helper renamed / inlined: the MVCAPA runs still cover it
            acc.concrete("unit.skipped_anchor_not_found", True)
            return
        sav = TableSaving(p=p).fit(X)
        res = find_affected_components(sav, [(0, 2)], SymReal(alpha), np.array([SymReal(b) for b in betas], dtype=object))
        acc.concrete("unit.shape", len(res) == 1 and tuple(res[0][:2]) == (0, 2), dict(info, res=str(res)[:100]), eng=eng)
        cols = [int(c) for c in np.asarray(res[0][2]).ravel()]
        vals = [z3.Real(f"S_0_2_{j}") for j in range(p)]
        column_obligations(eng, acc, cols, vals, betas, dict(info, anomaly=(0, 2), kind="unit"))
        acc.add_to("outputs", tuple(cols))
        acc.sample(dict(info, icolumns=cols))

    return Harness(run, base, name=f"unit {info}")


def jobs(tier):
    out = []
    C3 = "harness.c03"
    if tier == "quick":
        mv = [(2, 2, 2, 2, "general", "sparse"), (2, 2, 2, 2, "sparse", "general"), (2, 2, 2, 2, "dense", "dense"),
              (3, 2, 2, 3, "dense", "dense")]
        units = [(1, "general"), (2, "general"), (3, "general"), (4, "general"), (4, "equal"), (5, "general")]
    else:
        mv = [(2, 2, 2, 2, a, b) for a, b in (("general", "sparse"), ("sparse", "general"), ("dense", "dense"), ("mixed", "general"))]
        # measured: (2, p=3, general/sparse) 240 107 paths, (3, p=2, dense/general) 88 884 paths; the other two n=3 / p=3 regimes
        # would add another 20 min each and are left out
        mv += [(3, 2, 2, 3, "dense", "general"), (2, 3, 2, 2, "general", "sparse")]
        units = [(p, "general") for p in range(1, 7)] + [(5, "equal"), (6, "equal")]
    for (n, p, m, M, creg, preg) in mv:
        out.append(Job(C3, "make_mvcapa", dict(n=n, p=p, m=m, M=M, mode="c16", creg=creg, preg=preg), split=True))
    # fitted on labelled columns, asked about the same labelled columns in another order: everything reported refers
    # to the positions in the frame passed to predict / transform
    for (n, p, m, M, creg, preg, perm) in ([(2, 2, 2, 2, "general", "sparse", (1, 0))] if tier == "quick" else
                                           [(2, 2, 2, 2, "general", "sparse", (1, 0)), (2, 2, 2, 2, "sparse", "general", (1, 0)), (2, 3, 2, 2, "sparse", "sparse", (2, 0, 1))]):
        out.append(Job(C3, "make_mvcapa", dict(n=n, p=p, m=m, M=M, mode="c16", creg=creg, preg=preg, colperm=perm), split=True))
    for (p, nb) in units:
        out.append(Job("harness.c16", "make_unit", dict(p=p, nbetas=nb), split=p >= 4))
    return out


def replay(cx):
    info = cx.get("info") or {}
    model = cx.get("model") or {}
    ob = cx["ob"]
    env = {}
    for k, v in model.items():
        try:
            env[k] = float(Fraction(v))
        except Exception:
            pass
    p = info["p"]
    key = ob
    bad = []
    if info.get("unit"):
        from skchange.anomaly_detectors.mvcapa import find_affected_components
        vals = [env.get(f"S_0_2_{j}", 0.0) for j in range(p)]
        betas = [env.get(f"beta_{k}", 0.0) for k in range(p)]
        with proxy.native():
            sav = TableSaving(p=p, values={f"S_0_2_{j}": vals[j] for j in range(p)}).fit(pd.DataFrame(np.zeros((3, p))))
            res = find_affected_components(sav, [(0, 2)], env.get("alpha", 0.0), np.array(betas))
        cols = [int(c) for c in res[0][2]]
        bad = _plain_column_problems(cols, vals, betas)
        return dict(reproduced=bool(bad), key=key, what=f"find_affected_components: savings {vals}, betas {betas} -> columns {cols}: {bad[:2]}")
    from .c03 import native_run
    n = info["n"]
    try:
        out, sc, pens = native_run(info, env)
    except Exception as ex:
        return dict(reproduced=True, key=f"runs_to_completion|MVCAPA|{type(ex).__name__}", what=f"MVCAPA raised {type(ex).__name__}: {str(ex)[:200]} [env {env}]")
    anoms = [(int(i.left), int(i.right)) for i in out["ilocs"]]
    cols = [[int(c) for c in np.asarray(v).ravel()] for v in out["icolumns"]]
    beta_s = 2 * env.get("cscale", 0.0) * math.log(p)
    cm = info.get("colperm") or list(range(p))
    for (s, e), cl in zip(anoms, cols):
        if e - s == 1:
            vals = [env.get(f"P_{s}_{e}_{cm[j]}", 0.0) for j in range(p)]
            betas = list(pens[3])
        else:
            vals = [env.get(f"S_{s}_{e}_{cm[j]}", 0.0) for j in range(p)]
            betas = [beta_s] * p
        pr = _plain_column_problems(cl, vals, betas)
        if pr:
            bad.append(f"anomaly [{s},{e}) savings {vals} penalties {betas} columns {cl}: {pr[0]}")
    from skchange.anomaly_detectors import MVCAPA
    from .c03 import _num_penalty, dummy_X
    S = {k: v for k, v in env.items() if k.startswith("S_")}
    P = {k: v for k, v in env.items() if k.startswith("P_")}
    with proxy.native():
        if info.get("colperm") is not None:
            from .c03 import TagSaving, tag_X
            det = MVCAPA(TagSaving(p=p, values=S), TagSaving(p=p, tag="P", values=P),
                         collective_penalty=_num_penalty(pens[0], pens[1]), collective_penalty_scale=float(env.get("cscale", 0.0)),
                         point_penalty=_num_penalty(pens[2], pens[3]), min_segment_length=info["m"], max_segment_length=info["M"])
            dense = det.fit(tag_X(n, p)).transform(tag_X(n, p, info["colperm"]))
        else:
            det = MVCAPA(TableSaving(p=p, values=S), TableSaving(p=p, tag="P", values=P),
                         collective_penalty=_num_penalty(pens[0], pens[1]), collective_penalty_scale=float(env.get("cscale", 0.0)),
                         point_penalty=_num_penalty(pens[2], pens[3]), min_segment_length=info["m"], max_segment_length=info["M"])
            dense = det.fit(dummy_X(n, p)).transform(dummy_X(n, p))
    want = np.zeros((n, p), dtype=int)
    for lab, ((s, e), cl) in enumerate(zip(anoms, cols), start=1):
        for c in cl:
            want[s:e, c] = lab
    if dense.shape != want.shape or not (np.asarray(dense.values) == want).all():
        bad.append(f"transform gives {np.asarray(dense.values).tolist()} but predict reports {anoms} with columns {cols}")
    return dict(reproduced=bool(bad), key=key, what=(f"MVCAPA n={n} p={p}: " + "; ".join(bad[:2]))[:800])


def _plain_column_problems(cols, vals, betas):
    p = len(vals)
    bad = []
    if not cols or len(set(cols)) != len(cols) or any(c < 0 or c >= p for c in cols):
        return [f"columns {cols} are not a non-empty list of distinct valid positions"]
    tol = 1e-12
    if any(vals[cols[i]] < vals[cols[i + 1]] - tol for i in range(len(cols) - 1)):
        bad.append("columns not in order of decreasing saving")
    if any(vals[x] > vals[c] + tol for c in cols for x in range(p) if x not in cols):
        bad.append("an excluded column has a larger saving than an included one")
    value = sum(vals[c] for c in cols) - sum(betas[:len(cols)])
    srt = sorted(vals, reverse=True)
    best = max(sum(srt[:k]) - sum(betas[:k]) for k in range(1, p + 1))
    if value < best - 1e-9 * (1 + abs(best)):
        bad.append(f"penalised saving {value:.6g} of the reported columns is below the optimum {best:.6g}")
    return bad
