"""C11 -- outputs do not depend on how the same numbers are passed in.

Product runs in one symbolic path: the same matrix of symbolic values is handed to a
detector (table scorers, so the path count stays at the C04 level) or to a built-in
scorer as DataFrame / ndarray / Series / with other column labels and indexes; the
outputs must be the same detections and the same terms, the scorer must have been
handed the same values, and dense outputs must carry X's own index."""
from __future__ import annotations

from fractions import Fraction

import numpy as np
import pandas as pd
import z3

from symnp import proxy
from symnp.core import Engine, SymReal, rv
from symnp.drive import Acc, Harness, Job

from .common import sym_matrix
from .scorers import TableChangeScore, TableCost, TableLocalScore, TableSaving

PROPERTY = "C11"
FUNCTIONS = [
    "skchange.base.base_detector:BaseDetector.fit",
    "skchange.base.base_detector:BaseDetector.predict",
    "skchange.base.base_detector:BaseDetector.transform",
    "skchange.base.base_detector:BaseDetector.transform_scores",
    "skchange.base.base_detector:BaseDetector.update",
    "skchange.utils.validation.data:check_data",
    "skchange.utils.validation.data:as_2d_array",
    "skchange.base.base_interval_scorer:BaseIntervalScorer.fit",
    "skchange.anomaly_detectors.anomalisers:StatThresholdAnomaliser._predict",
    "skchange.anomaly_detectors.base:CollectiveAnomalyDetector.sparse_to_dense",
    "skchange.change_detectors.base:ChangeDetector.sparse_to_dense",
]
BOUNDS = {
    "quick": "seven detectors with table scorers on an n x p matrix of symbolic values: n=4 (CBS n=5, CAPA/MVCAPA n=3), p in "
             "{1,2}; containers: DataFrame, 2-D ndarray, 1-D ndarray and Series (p=1), string column labels, RangeIndex(5,5+n), "
             "DatetimeIndex, PeriodIndex; entry points fit / predict / transform / transform_scores / update; eight built-in "
             "scorers on symbolic data n=4; int64 vs float64 at solver-generated integer data (testing, reported separately)",
    "thorough": "n one larger, p<=2, two-step update histories",
}
STUBS = ["table scorers that also record the array they were fitted on"]
ASSUMPTIONS = ["object dtype carries the symbolic values, so dtype itself cannot be symbolic: int64 vs float64 is compared "
               "natively at integer-valued witnesses the solver produces for each scorer path (solver-generated testing, not a "
               "for-all verdict)"]
OUTSIDE = ["float32 / nullable dtypes, MultiIndex", "a for-all claim about dtype"]


def containers(Xobj, p):
    n = Xobj.shape[0]
    out = {
        "frame": pd.DataFrame(Xobj.copy()),
        "ndarray2d": Xobj.copy(),
        "frame_strcols": pd.DataFrame(Xobj.copy(), columns=["zeta", "alpha", "mid", "beta"][:p]),   # deliberately not in sorted order
        "frame_range5": pd.DataFrame(Xobj.copy(), index=pd.RangeIndex(5, 5 + n)),
        "frame_datetime": pd.DataFrame(Xobj.copy(), index=pd.date_range("2021-03-01", periods=n, freq="D")),
        "frame_period": pd.DataFrame(Xobj.copy(), index=pd.period_range("2021-03", periods=n, freq="M")),
    }
    if p == 1:
        out["ndarray1d"] = Xobj[:, 0].copy()
        out["series"] = pd.Series(Xobj[:, 0].copy())
        out["series_datetime"] = pd.Series(Xobj[:, 0].copy(), index=pd.date_range("2021-03-01", periods=n, freq="D"), name="y")
    return out


def expected_index(X, n):
    return X.index if hasattr(X, "index") else pd.RangeIndex(n)


def build(det, p, values=None, scale=None):
    from skchange.anomaly_detectors import CAPA, MVCAPA, CircularBinarySegmentation, StatThresholdAnomaliser
    from skchange.change_detectors import PELT, MovingWindow, SeededBinarySegmentation
    s = SymReal(z3.Real("scale")) if scale is None else float(scale)
    v = lambda pre: None if values is None else {k: x for k, x in values.items() if k.startswith(pre)}
    if det == "PELT":
        return PELT(TableCost(p=p, values=v("c")), penalty_scale=s, min_segment_length=1)
    if det == "MovingWindow":
        return MovingWindow(TableChangeScore(p=p, values=v("T")), bandwidth=1, threshold_scale=s)
    if det == "SBS":
        return SeededBinarySegmentation(TableChangeScore(p=p, values=v("T")), threshold_scale=s, min_segment_length=1, growth_factor=2.0)
    if det == "CBS":
        return CircularBinarySegmentation(TableLocalScore(p=p, values=v("A")), threshold_scale=s, min_segment_length=1, growth_factor=2.0)
    if det == "CAPA":
        return CAPA(TableSaving(p=p, values=v("S")), TableSaving(p=p, tag="P", values=v("P")), collective_penalty_scale=s, point_penalty_scale=s, min_segment_length=2)
    if det == "MVCAPA":
        return MVCAPA(TableSaving(p=p, values=v("S")), TableSaving(p=p, tag="P", values=v("P")), collective_penalty="sparse", collective_penalty_scale=s,
                      point_penalty="sparse", point_penalty_scale=s, min_segment_length=2)
    if det == "StatThresholdAnomaliser":
        from .c17 import seg_stat
        return StatThresholdAnomaliser(MovingWindow(TableChangeScore(p=1, values=v("T")), bandwidth=1, threshold_scale=s),
                                       stat=_val_stat if values is None else _num_val_stat(values), stat_lower=-1.0, stat_upper=1.0)
    raise ValueError(det)


def _val_stat(values):
    """statistic = a free real named by the symbolic values of the segment it is handed"""
    from .scorers import UFCost
    from symnp.core import is_sym
    if not any(is_sym(v) for v in values):
        return float(np.mean(np.asarray(values, dtype=float)))      # concrete side datasets (C10) must not fork
    return SymReal(z3.Real("stat[" + UFCost.rows_key([[v] for v in values]) + "]"))


def _num_val_stat(values):
    def f(vals):
        return float(np.mean(vals))
    return f


def _scorer_of(d):
    for name in ("_cost", "_change_score", "_anomaly_score", "_collective_saving"):
        if hasattr(d, name):
            return getattr(d, name)
    if hasattr(d, "change_detector_"):
        return _scorer_of(d.change_detector_)
    return None


def _sparse(out):
    cols = []
    for _, row in out.iterrows():
        v = row["ilocs"]
        item = (int(v.left), int(v.right)) if isinstance(v, pd.Interval) else int(v)
        if "icolumns" in out.columns:
            item = (item, tuple(int(c) for c in row["icolumns"]))
        cols.append(item)
    return cols


def _terms(series):
    vals = series.values if hasattr(series, "values") else np.asarray(series)
    return [z3.simplify(rv(v)) if not isinstance(v, (str, bytes)) else v for v in np.asarray(vals, dtype=object).ravel()]


def _same_terms(a, b):
    return len(a) == len(b) and all(x.eq(y) for x, y in zip(a, b))


def run_all(det, X, n, p):
    """fit / predict / transform / transform_scores / update+predict on one representation."""
    d = build(det, p)
    d.fit(X)
    res = dict(fitted={k: z3.simplify(rv(v)) for k, v in vars(d).items() if k.endswith("_") and k in ("penalty_", "threshold_", "collective_penalty_", "point_penalty_")})
    res["predict"] = _sparse(d.predict(X))
    sc = _scorer_of(d)
    res["seen"] = None if sc is None or not hasattr(sc, "seen_") else np.asarray(sc.seen_, dtype=object).reshape(n, -1)
    dense = d.transform(X)
    res["transform"] = np.asarray(dense.values).tolist()
    res["transform_index"] = dense.index
    try:
        ts = d.transform_scores(X)
    except NotImplementedError:
        ts = None            # the detector has no transform_scores (same for every representation)
    if ts is not None:
        res["scores_index"] = ts.index if hasattr(ts, "index") else None
        if isinstance(ts, pd.DataFrame):
            res["scores"] = _terms(ts["score"]) if "score" in ts else _terms(ts)
        else:
            res["scores"] = _terms(ts)
    try:
        d2 = build(det, p)
        d2.fit(X)
        d2.update(X)
        res["update_predict"] = _sparse(d2.predict(X))
        res["update_fitted"] = {k: z3.simplify(rv(v)) for k, v in vars(d2).items() if k in ("penalty_", "threshold_", "collective_penalty_", "point_penalty_")}
    except Exception as ex:
        res["update_predict"] = f"{type(ex).__name__}: {ex}"[:160]
        res["update_fitted"] = {}
    return res


def make_det(det, n, p):
    Xobj = sym_matrix(n, p)
    base = [z3.Real("scale") >= 0]
    if det == "PELT":
        from .c02 import split_inequalities
        base += split_inequalities(n, 1, p)
    if det in ("CAPA", "MVCAPA"):
        from .c03 import table_assumptions
        base += table_assumptions(n, p, 2, n)
    info = dict(part="detector", det=det, n=n, p=p)

    def run(eng, acc):
        cs = containers(Xobj, p)
        try:
            ref = run_all(det, cs["frame"], n, p)
        except Exception as ex:
            acc.concrete("canonical_run_completes", False, dict(info, exception=f"{type(ex).__name__}: {ex}"[:200]), eng=eng)
            return
        acc.concrete("update_with_the_same_data.runs_on_frame", not isinstance(ref["update_predict"], str), dict(info, container="frame", outcome=str(ref["update_predict"])[:120]), eng=eng)
        for name, X in cs.items():
            if name == "frame":
                acc.concrete("transform_carries_X_index", ref["transform_index"].equals(cs["frame"].index), dict(info, container=name), eng=eng)
                continue
            inf = dict(info, container=name)
            try:
                got = run_all(det, X, n, p)
            except Exception as ex:
                acc.concrete("runs_on_every_representation", False, dict(inf, exception=f"{type(ex).__name__}: {ex}"[:200]), eng=eng)
                continue
            acc.concrete("runs_on_every_representation", True)
            acc.concrete("same_fitted_threshold_or_penalty", set(got["fitted"]) == set(ref["fitted"]) and all(got["fitted"][k].eq(ref["fitted"][k]) for k in ref["fitted"]), inf, eng=eng)
            acc.concrete("same_detections", got["predict"] == ref["predict"], dict(inf, got=got["predict"], want=ref["predict"]), eng=eng)
            if ref["seen"] is not None and got["seen"] is not None:
                same = got["seen"].shape == ref["seen"].shape and all(rv(a).eq(rv(b)) for a, b in zip(got["seen"].ravel(), ref["seen"].ravel()))
                acc.concrete("scorer_is_fitted_on_the_same_values", same, dict(inf, shape=got["seen"].shape), eng=eng)
            acc.concrete("same_dense_labels", got["transform"] == ref["transform"], dict(inf, got=got["transform"], want=ref["transform"]), eng=eng)
            acc.concrete("transform_carries_X_index", got["transform_index"].equals(expected_index(X, n)), dict(inf, index=str(got["transform_index"])[:80]), eng=eng)
            acc.concrete("transform_scores_available_alike", ("scores" in ref) == ("scores" in got), inf, eng=eng)
            if "scores" in ref and "scores" in got:
                acc.concrete("same_scores", _same_terms(got["scores"], ref["scores"]), inf, eng=eng)
                if det in ("PELT", "MovingWindow", "CAPA", "MVCAPA"):
                    acc.concrete("scores_carry_X_index", got["scores_index"] is not None and got["scores_index"].equals(expected_index(X, n)), inf, eng=eng)
            acc.concrete("update_same_outcome_as_on_frame", got["update_predict"] == ref["update_predict"],
                         dict(inf, got=str(got["update_predict"])[:120], want=str(ref["update_predict"])[:120]), eng=eng)
        acc.add_to("outputs", str(ref["predict"]))
        acc.sample(dict(info, detections=ref["predict"], containers=list(cs)))

    return Harness(run, base, name=f"det {info}")


def make_scorers(n, p):
    Xobj = sym_matrix(n, p)
    info = dict(part="scorer", n=n, p=p)

    def run(eng, acc):
        from skchange.anomaly_scores import L2Saving, LocalAnomalyScore, Saving
        from skchange.change_scores import CUSUM, ChangeScore
        from skchange.costs import GaussianCovCost, GaussianVarCost, L2Cost
        zoo = {"L2Cost": (L2Cost, [[0, n], [1, 3]]), "L2Cost(0)": (lambda: L2Cost(0.0), [[0, n]]), "GaussianVarCost": (GaussianVarCost, [[0, n]]),
               "CUSUM": (CUSUM, [[0, 1, n], [1, 2, 3]]), "ChangeScore(L2Cost)": (lambda: ChangeScore(L2Cost()), [[0, 2, n]]),
               "Saving(L2Cost)": (lambda: Saving(L2Cost(0.0)), [[1, n]]), "L2Saving": (L2Saving, [[0, n], [2, 3]]),
               "LocalAnomalyScore(L2Cost)": (lambda: LocalAnomalyScore(L2Cost()), [[0, 1, 3, n]])}
        if n >= p + 1:
            zoo["GaussianCovCost"] = (GaussianCovCost, [[0, n]])
        cs = containers(Xobj, p)
        for name, (mk, cuts) in zoo.items():
            with proxy.settings(exact=(name == "CUSUM")):
                try:
                    ref = mk().fit(cs["frame"]).evaluate(np.array(cuts))
                except RuntimeError:
                    continue
                for cname, X in cs.items():
                    if cname == "frame":
                        continue
                    inf = dict(info, scorer=name, container=cname)
                    try:
                        got = mk().fit(X).evaluate(np.array(cuts))
                    except Exception as ex:
                        acc.concrete("scorer.runs_on_every_representation", False, dict(inf, exception=f"{type(ex).__name__}: {ex}"[:160]), eng=eng)
                        continue
                    same = got.shape == ref.shape and all(z3.simplify(rv(a) - rv(b)).eq(z3.RealVal(0)) or eng.valid(rv(a) == rv(b))[0] is True
                                                          for a, b in zip(np.asarray(got).ravel(), np.asarray(ref).ravel()))
                    acc.concrete("scorer.same_values", same, dict(inf, shape=got.shape), eng=eng)
        acc.sample(dict(info, scorers=list(zoo), containers=list(cs)))

    return Harness(run, [], sliced=True, timeout_ms=10000, name=f"scorers {info}")


def _dtype_scorers(pp):
    from skchange.anomaly_scores import L2Saving, LocalAnomalyScore, Saving
    from skchange.change_scores import CUSUM, ChangeScore
    from skchange.costs import GaussianCovCost, GaussianVarCost, L2Cost
    scorers = {"L2Cost": (L2Cost, [[0, 8], [2, 5]]), "GaussianVarCost": (GaussianVarCost, [[0, 8], [4, 8]]), "CUSUM": (CUSUM, [[0, 3, 8]]),
               "ChangeScore(GaussianVarCost)": (lambda: ChangeScore(GaussianVarCost()), [[0, 4, 8]]), "L2Saving": (L2Saving, [[1, 6]]),
               "Saving(L2Cost)": (lambda: Saving(L2Cost(0.0)), [[1, 6]]), "LocalAnomalyScore(L2Cost)": (lambda: LocalAnomalyScore(L2Cost()), [[0, 2, 5, 8]])}
    # fixed (non-integer) parameters: a cast of the parameter to the data dtype would show here
    scorers["L2Cost(0.5)"] = (lambda: L2Cost(0.5), [[0, 8], [2, 5]])
    scorers["L2Cost(per-column 0.5)"] = (lambda: L2Cost(np.full(pp, 0.5)), [[1, 7]])
    scorers["GaussianVarCost((0.5, 1.5))"] = (lambda: GaussianVarCost((0.5, 1.5)), [[0, 8]])
    scorers["GaussianCovCost((0.5, 1.5))"] = (lambda: GaussianCovCost((0.5, 1.5)), [[0, 8]])
    scorers["Saving(L2Cost(0.5))"] = (lambda: Saving(L2Cost(0.5)), [[1, 6]])
    scorers["Saving(GaussianVarCost((0.5, 1.5)))"] = (lambda: Saving(GaussianVarCost((0.5, 1.5))), [[1, 6]])
    if pp == 2:
        scorers["GaussianCovCost"] = (GaussianCovCost, [[4, 8]])
    return scorers


def _dtype_dets(pp):
    from skchange.anomaly_detectors import CAPA, MVCAPA, CircularBinarySegmentation, StatThresholdAnomaliser
    from skchange.change_detectors import PELT, MovingWindow, SeededBinarySegmentation
    from skchange.costs import GaussianVarCost, L2Cost
    dets = {"PELT": lambda: PELT(min_segment_length=1, penalty_scale=0.5), "MovingWindow": lambda: MovingWindow(bandwidth=2, threshold_scale=0.5),
            "SBS": lambda: SeededBinarySegmentation(min_segment_length=1, threshold_scale=0.5), "CBS": lambda: CircularBinarySegmentation(min_segment_length=1, threshold_scale=0.5),
            "CAPA": lambda: CAPA(collective_penalty_scale=0.5, point_penalty_scale=0.5), "MVCAPA": lambda: MVCAPA(collective_penalty_scale=0.5, point_penalty_scale=0.5),
            "CAPA(L2Cost(0.5))": lambda: CAPA(L2Cost(0.5), L2Cost(0.5), collective_penalty_scale=0.1, point_penalty_scale=0.1),
            "MVCAPA(L2Cost(0.5))": lambda: MVCAPA(L2Cost(0.5), L2Cost(0.5), collective_penalty_scale=0.1, point_penalty_scale=0.1),
            "PELT(GaussianVarCost)": lambda: PELT(GaussianVarCost(), min_segment_length=2, penalty_scale=0.5),
            "MovingWindow(L2Cost)": lambda: MovingWindow(L2Cost(), bandwidth=2, threshold_scale=0.5)}
    if pp == 1:
        dets["StatThresholdAnomaliser"] = lambda: StatThresholdAnomaliser(MovingWindow(bandwidth=2, threshold_scale=0.5))
    return dets


def make_dtype(seed=0):
    """int64 vs float64 holding the same values: native runs at integer data (testing)."""
    info = dict(part="dtype")

    def run(eng, acc):
        from skchange.anomaly_detectors import CAPA, MVCAPA, CircularBinarySegmentation, StatThresholdAnomaliser
        from skchange.anomaly_scores import L2Saving, LocalAnomalyScore, Saving
        from skchange.change_detectors import PELT, MovingWindow, SeededBinarySegmentation
        from skchange.change_scores import CUSUM, ChangeScore
        from skchange.costs import GaussianCovCost, GaussianVarCost, L2Cost
        # integer-valued witnesses: asked of the solver for the two variance-floor branches
        n, p = 8, 2
        Xs = sym_matrix(n, p)
        datasets = []
        for want_floor in (True, False):
            s = z3.Solver()
            v = z3.Sum([rv(Xs[i, 0]) * rv(Xs[i, 0]) for i in range(4)]) / 4 - (z3.Sum([rv(Xs[i, 0]) for i in range(4)]) / 4) ** 2
            s.add(v < 1e-16 if want_floor else v > 1)
            for i in range(n):
                for j in range(p):
                    t = rv(Xs[i, j])
                    s.add(z3.IsInt(t), t >= -9, t <= 9)
            s.add(z3.Distinct([rv(Xs[i, 1]) for i in range(n)]))
            s.add(rv(Xs[5, 0]) - rv(Xs[4, 0]) >= 5)
            if s.check() == z3.sat:
                m = s.model()
                datasets.append(np.array([[m.eval(rv(Xs[i, j]), model_completion=True).as_long() for j in range(p)] for i in range(n)], dtype=np.int64))
        acc.concrete("dtype.solver_produced_integer_witnesses", len(datasets) == 2, info)
        with proxy.native():
            for Xi in datasets:
                for cols in (slice(0, 1), slice(0, 2)):
                    A = Xi[:, cols]
                    pp = A.shape[1]
                    F = A.astype(np.float64)
                    scorers = _dtype_scorers(pp)
                    for name, (mk, cuts) in scorers.items():
                        for wrap in (lambda a: a, lambda a: pd.DataFrame(a)):
                            try:
                                a = mk().fit(wrap(A)).evaluate(np.array(cuts))
                                b = mk().fit(wrap(F)).evaluate(np.array(cuts))
                                ok = bool(np.allclose(a, b, rtol=1e-9, atol=1e-9))
                            except RuntimeError:
                                ok = True
                            except Exception as ex:
                                ok = False
                            acc.concrete("dtype.scorer_int64_equals_float64", ok, dict(info, scorer=name, data=A.tolist()))
                            acc.inc("dtype_witness_runs"); acc.inc("translator_ok")
                    dets = _dtype_dets(pp)
                    for name, mk in dets.items():
                        try:
                            a = mk().fit(pd.DataFrame(A)).predict(pd.DataFrame(A))
                            b = mk().fit(pd.DataFrame(F)).predict(pd.DataFrame(F))
                            ok = _sparse(a) == _sparse(b)
                            what = f"{_sparse(a)} vs {_sparse(b)}"
                        except Exception as ex:
                            ok, what = False, f"{type(ex).__name__}: {ex}"[:120]
                        acc.concrete("dtype.detector_int64_equals_float64", ok, dict(info, det=name, data=A.tolist(), outcome=what))
                        acc.inc("dtype_witness_runs"); acc.inc("translator_ok")
        acc.sample(dict(info, datasets=[d.tolist() for d in datasets]))

    return Harness(run, [], name="dtype")


def jobs(tier):
    M = "harness.c11"
    out = []
    if tier == "quick":
        grid = [("PELT", 4, 1), ("PELT", 3, 2), ("MovingWindow", 4, 1), ("MovingWindow", 4, 2), ("SBS", 4, 1), ("SBS", 3, 2), ("CBS", 5, 1),
                ("CAPA", 3, 1), ("CAPA", 3, 2), ("MVCAPA", 2, 2), ("MVCAPA", 3, 1), ("StatThresholdAnomaliser", 4, 1)]
        sc = [(4, 1), (4, 2)]
    else:
        grid = [("PELT", 5, 1), ("PELT", 4, 2), ("MovingWindow", 5, 1), ("MovingWindow", 5, 2), ("SBS", 4, 1), ("SBS", 4, 2), ("CBS", 5, 1), ("CBS", 5, 2),
                ("CAPA", 4, 1), ("CAPA", 3, 2), ("MVCAPA", 2, 2), ("MVCAPA", 3, 1), ("StatThresholdAnomaliser", 5, 1)]
        sc = [(4, 1), (5, 2), (5, 3)]
    for (det, n, p) in grid:
        out.append(Job(M, "make_det", dict(det=det, n=n, p=p), split=True))
    for (n, p) in sc:
        out.append(Job(M, "make_scorers", dict(n=n, p=p)))
    out.append(Job(M, "make_dtype", {}))
    return out


def replay(cx):
    info = cx.get("info") or {}
    model = cx.get("model") or {}
    ob = cx["ob"]
    part = info.get("part")
    env = {}
    for k, v in model.items():
        try:
            env[k] = float(Fraction(v))
        except Exception:
            pass
    if part == "dtype":
        A = np.array(info["data"], dtype=np.int64)
        F = A.astype(np.float64)
        pp = A.shape[1]
        with proxy.native():
            try:
                if "scorer" in info:
                    mk, cuts = _dtype_scorers(pp)[info["scorer"]]
                    a, b = mk().fit(A).evaluate(np.array(cuts)), mk().fit(F).evaluate(np.array(cuts))
                    a2 = mk().fit(pd.DataFrame(A)).evaluate(np.array(cuts))
                    bad = not (np.allclose(a, b, rtol=1e-9, atol=1e-9) and np.allclose(a2, b, rtol=1e-9, atol=1e-9))
                    what = f"{info['scorer']}.fit(int64 data).evaluate({cuts}) = {np.asarray(a).tolist()} but on the same values as float64 {np.asarray(b).tolist()}"
                else:
                    mk = _dtype_dets(pp)[info["det"]]
                    a = _sparse(mk().fit(pd.DataFrame(A)).predict(pd.DataFrame(A)))
                    b = _sparse(mk().fit(pd.DataFrame(F)).predict(pd.DataFrame(F)))
                    bad = a != b
                    what = f"{info['det']} on int64 data gives {a}, on the same values as float64 {b}"
            except RuntimeError:
                bad, what = False, "RuntimeError (not positive definite)"
            except Exception as ex:
                bad, what = True, f"{type(ex).__name__}: {ex}"
        return dict(reproduced=bool(bad), key=f"{ob}|{info.get('scorer') or info.get('det')}", what=what + f" [data {A.tolist()}]")
    n, p = info["n"], info["p"]
    # default data away from zero so that statistics-based detectors (StatThresholdAnomaliser) flag something
    Xf = np.array([[env.get(f"x_{i}_{j}", 10.0 + float((3 * i + 5 * j) % 7)) for j in range(p)] for i in range(n)])
    cname = info.get("container", "frame")
    bad = []
    with proxy.native():
        cs = containers(Xf.astype(object), p)
        for k in list(cs):
            cs[k] = cs[k].astype(float) if hasattr(cs[k], "astype") else cs[k]
        if part == "scorer":
            from skchange.anomaly_scores import L2Saving, LocalAnomalyScore, Saving
            from skchange.change_scores import CUSUM, ChangeScore
            from skchange.costs import GaussianCovCost, GaussianVarCost, L2Cost
            zoo = {"L2Cost": (L2Cost, [[0, n], [1, 3]]), "L2Cost(0)": (lambda: L2Cost(0.0), [[0, n]]), "GaussianVarCost": (GaussianVarCost, [[0, n]]),
                   "CUSUM": (CUSUM, [[0, 1, n], [1, 2, 3]]), "ChangeScore(L2Cost)": (lambda: ChangeScore(L2Cost()), [[0, 2, n]]),
                   "Saving(L2Cost)": (lambda: Saving(L2Cost(0.0)), [[1, n]]), "L2Saving": (L2Saving, [[0, n], [2, 3]]),
                   "LocalAnomalyScore(L2Cost)": (lambda: LocalAnomalyScore(L2Cost()), [[0, 1, 3, n]]), "GaussianCovCost": (GaussianCovCost, [[0, n]])}
            mk, cuts = zoo[info["scorer"]]
            ref = mk().fit(cs["frame"]).evaluate(np.array(cuts))
            try:
                got = mk().fit(cs[cname]).evaluate(np.array(cuts))
                if got.shape != ref.shape or not np.allclose(got, ref):
                    bad.append(f"{info['scorer']} on {cname}: {np.asarray(got).tolist()} vs on DataFrame {ref.tolist()}")
            except Exception as ex:
                bad.append(f"{info['scorer']} on {cname} raised {type(ex).__name__}: {ex}")
            return dict(reproduced=bool(bad), key=f"{ob}|{info['scorer']}|{cname}", what="; ".join(bad)[:500])
        det = info["det"]

        def go(X):
            d = build(det, p, values=env, scale=env.get("scale", 0.5)).fit(X)
            res = dict(predict=_sparse(d.predict(X)))
            sc_ = _scorer_of(d)
            seen = getattr(sc_, "seen_", None) if sc_ is not None else None
            res["seen"] = None if seen is None else np.asarray(seen, dtype=float)
            dense = d.transform(X)
            res["transform"], res["index"] = np.asarray(dense.values).tolist(), dense.index
            try:
                ts = d.transform_scores(X)
                res["scores_index"] = ts.index
                vals = ts["score"] if isinstance(ts, pd.DataFrame) and "score" in ts else ts
                res["scores"] = np.asarray(vals, dtype=float).round(9).tolist()
            except NotImplementedError:
                res["scores_index"], res["scores"] = None, None
            try:
                d2 = build(det, p, values=env, scale=env.get("scale", 0.5)).fit(X)
                d2.update(X)
                res["update"] = _sparse(d2.predict(X))
            except Exception as ex:
                res["update"] = f"{type(ex).__name__}: {ex}"[:120]
            return res
        ref = go(cs["frame"])
        try:
            got = go(cs[cname])
            if got["predict"] != ref["predict"]:
                bad.append(f"predict on {cname}: {got['predict']} vs on DataFrame {ref['predict']}")
            if got["seen"] is not None and ref["seen"] is not None and (got["seen"].shape != ref["seen"].shape or not np.array_equal(got["seen"], ref["seen"])):
                bad.append(f"on {cname} the scorer is fitted on {got['seen'].tolist()}, on the plain DataFrame of the same values on {ref['seen'].tolist()}")
            if got["transform"] != ref["transform"]:
                bad.append(f"transform on {cname}: {got['transform']} vs {ref['transform']}")
            if not got["index"].equals(expected_index(cs[cname], n)):
                bad.append(f"transform on {cname} has index {got['index']}")
            if got["update"] != ref["update"]:
                bad.append(f"update+predict on {cname}: {got['update']} vs on DataFrame {ref['update']}")
            if got["scores"] != ref["scores"]:
                bad.append(f"transform_scores on {cname}: {got['scores']} vs on DataFrame {ref['scores']}")
            if det in ("PELT", "MovingWindow", "CAPA", "MVCAPA") and got["scores_index"] is not None and not got["scores_index"].equals(expected_index(cs[cname], n)):
                bad.append(f"transform_scores on {cname} has index {list(got['scores_index'])[:3]}..., X has {list(expected_index(cs[cname], n))[:3]}...")
        except Exception as ex:
            bad.append(f"{det} on {cname} raised {type(ex).__name__}: {ex}")
    kind = "update" if bad and all("update" in b for b in bad) else "run"
    return dict(reproduced=bool(bad), key=f"{det}|{cname}|{kind}", what=f"{det} (n={n}, p={p}): " + "; ".join(bad)[:600])
