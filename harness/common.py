"""Shared helpers for the property harnesses."""
from __future__ import annotations

import math
from fractions import Fraction

import numpy as np
import z3

from symnp.core import Engine, SymInt, SymReal, rv, to_fraction

PI2 = z3.RealVal(Fraction(2 * math.pi))
FLOOR = z3.RealVal(Fraction(1e-16))


def sym_matrix(n, p, prefix="x"):
    X = np.empty((n, p), dtype=object)
    for i in range(n):
        for j in range(p):
            X[i, j] = SymReal(z3.Real(f"{prefix}_{i}_{j}"))
    return X


def col_terms(X, s, e, j):
    return [rv(X[i, j]) for i in range(s, e)]


def tsum(ts):
    tot = None
    for t in ts:
        tot = t if tot is None else tot + t
    return z3.RealVal(0) if tot is None else tot


def rss(ts, mean=None):
    """sum (x - mean)^2; mean defaults to the sample mean."""
    if mean is None:
        mean = tsum(ts) / len(ts)
    return tsum([(t - mean) * (t - mean) for t in ts])


def model_matrix(model, n, p, prefix="x", default=0):
    """Float matrix of the model's values for the variables of sym_matrix."""
    out = np.zeros((n, p))
    for i in range(n):
        for j in range(p):
            v = model.eval(z3.Real(f"{prefix}_{i}_{j}"), model_completion=True)
            try:
                out[i, j] = float(to_fraction(v))
            except TypeError:
                out[i, j] = default
    return out


def model_env(model):
    env = {}
    for d in model.decls():
        if d.arity() == 0:
            try:
                env[d.name()] = float(to_fraction(model[d]))
            except TypeError:
                pass
    return env


def intervals(n, min_size):
    return [(s, e) for s in range(n) for e in range(s + min_size, n + 1)]


def frac(s):
    return Fraction(s)


def same_term(a, b):
    """Syntactic identity of two scalars (symbolic or concrete) after simplification."""
    try:
        ta, tb = z3.simplify(rv(a)), z3.simplify(rv(b))
    except Exception:
        return a is b or a == b
    return ta.eq(tb)
