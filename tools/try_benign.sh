#!/bin/sh
# tools/try_benign.sh <dir with patch.diff> <tier> <check ids...>
# Applies a behaviour-preserving refactoring to /repo, runs the test suite and the checks (all must exit 0), reverts /repo.
D="$1"; TIER="$2"; shift 2
cd /repo || exit 3
[ -z "$(git status --porcelain)" ] || { echo "/repo not clean"; exit 3; }
git apply "$D/patch.diff" || { echo "patch does not apply"; exit 3; }
echo "== with patch: $(git diff --stat | tail -1)"
/venv/bin/python -m pytest -q -p no:cacheprovider --timeout=900 -n 12 2>&1 | tail -1
cd /verif
for id in "$@"; do
  ./check "$id" --tier "$TIER" > "/tmp/benign_check_$id.log" 2>&1; code=$?
  echo "check $id ($TIER) exit=$code violations=$(grep -c '^VIOLATION' /tmp/benign_check_$id.log) harness_errors=$(grep -c '^HARNESS-ERROR' /tmp/benign_check_$id.log) | $(tail -1 /tmp/benign_check_$id.log | cut -c1-170)"
done
git -C /repo checkout -- . && git -C /repo clean -fdq >/dev/null 2>&1
