#!/bin/sh
# tools/try_seed_wt.sh <seed dir with patch.diff + demo.py> <tier> <check ids...>
# Like try_seed.sh, but in a scratch worktree of /repo's HEAD (PYTHONPATH override), so that
# several trials can run side by side and /repo itself is never touched.  Evidence / replays
# of the trial go to a scratch directory (VERIF_OUT), which is removed with the worktree.
D="$(cd "$1" && pwd)"; TIER="$2"; shift 2
NAME="$(basename "$D")"
WT="/tmp/wtseed_$NAME"; OUT="/tmp/wtout_$NAME"; LOG="${VERIF_TRIAL_LOGS:-/tmp/seedlogs}"
mkdir -p "$LOG"
git -C /repo worktree remove --force "$WT" >/dev/null 2>&1; rm -rf "$WT" "$OUT"
git -C /repo worktree add -q --detach "$WT" || exit 3
PYTHONPATH="$WT" /venv/bin/python "$D/demo.py" > "$LOG/$NAME.demo_without.log" 2>&1; echo "$NAME demo exit without patch: $?"
git -C "$WT" apply "$D/patch.diff" || { echo "$NAME patch does not apply"; git -C /repo worktree remove --force "$WT"; exit 3; }
echo "$NAME == with patch: $(git -C "$WT" diff --stat | tail -1)"
PYTHONPATH="$WT" /venv/bin/python "$D/demo.py" > "$LOG/$NAME.demo_with.log" 2>&1; echo "$NAME demo exit with patch: $?"
if [ -z "$SKIP_TESTS" ]; then
  (cd "$WT" && PYTHONPATH="$WT" /venv/bin/python -m pytest -q -p no:cacheprovider --timeout=900 -n ${TEST_PROCS:-8} 2>&1 | tail -1 | sed "s/^/$NAME tests: /")
fi
cd "$(dirname "$0")/.."
for id in "$@"; do
  PYTHONPATH="$WT" VERIF_OUT="$OUT" ./check "$id" --tier "$TIER" > "$LOG/$NAME.check_$id.log" 2>&1; code=$?
  echo "$NAME check $id ($TIER) exit=$code violations=$(grep -c '^VIOLATION' "$LOG/$NAME.check_$id.log") harness_errors=$(grep -c '^HARNESS-ERROR' "$LOG/$NAME.check_$id.log") | $(grep -A1 '^VIOLATION' "$LOG/$NAME.check_$id.log" | sed -n 2p | cut -c1-260)"
done
git -C /repo worktree remove --force "$WT"; rm -rf "$WT" "$OUT"
