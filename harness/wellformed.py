"""Well-formedness of sparse detector outputs (property C04), shared by the detector
harnesses: each path of a table-scorer run ends in a concrete output frame which is
checked here; the solver's part is the enumeration of the paths."""
from __future__ import annotations

from fractions import Fraction

import numpy as np
import pandas as pd


def _range_index_ok(df):
    idx = df.index
    return list(idx) == list(range(len(df)))


def problems_changepoints(out, n, m=None, lo=None, hi=None):
    bad = []
    if not isinstance(out, pd.DataFrame) or "ilocs" not in getattr(out, "columns", []):
        return [f"output is not a frame with an 'ilocs' column: {type(out).__name__}"]
    if not _range_index_ok(out):
        bad.append(f"index {list(out.index)} is not 0..K-1")
    if str(out["ilocs"].dtype) != "int64":
        bad.append(f"ilocs dtype {out['ilocs'].dtype} is not int64")
    try:
        c = [int(v) for v in out["ilocs"]]
    except Exception:
        return bad + ["ilocs are not integers"]
    if any(b <= a for a, b in zip(c[:-1], c[1:])):
        bad.append(f"changepoints {c} are not strictly increasing")
    if any(v < 1 or v > n - 1 for v in c):
        bad.append(f"changepoints {c} not all in [1, n-1] (n={n})")
    if m is not None:
        b = [0] + c + [n]
        if any(e - s < m for s, e in zip(b[:-1], b[1:])):
            bad.append(f"changepoints {c} leave a segment shorter than min_segment_length={m} (n={n})")
    if lo is not None and any(v < lo or v > hi for v in c):
        bad.append(f"changepoints {c} outside [{lo}, {hi}]")
    return bad


def problems_anomalies(out, n, min_len=None, max_len=None, point_ok=False, strict_inside=False, p=None):
    bad = []
    if not isinstance(out, pd.DataFrame) or "ilocs" not in getattr(out, "columns", []):
        return [f"output is not a frame with an 'ilocs' column: {type(out).__name__}"]
    if not _range_index_ok(out):
        bad.append(f"index {list(out.index)} is not 0..K-1")
    K = len(out)
    try:
        iv = [(int(i.left), int(i.right), i.closed) for i in out["ilocs"]]
    except Exception as ex:
        return bad + [f"ilocs are not intervals: {ex}"]
    if "labels" not in out.columns or [int(v) for v in out["labels"]] != list(range(1, K + 1)):
        bad.append(f"labels {list(out.get('labels', []))} are not 1..K")
    for (l, r, closed) in iv:
        if closed != "left":
            bad.append(f"interval [{l},{r}) is closed='{closed}', not left-closed")
        if r <= l:
            bad.append(f"interval [{l},{r}) is empty")
        if l < 0 or r > n:
            bad.append(f"interval [{l},{r}) not inside [0,{n}]")
        if strict_inside and (l <= 0 or r >= n):
            bad.append(f"interval [{l},{r}) not strictly inside the data (n={n})")
        length = r - l
        if min_len is not None:
            if point_ok and length == 1:
                pass
            elif length < min_len:
                bad.append(f"interval [{l},{r}) shorter than min_segment_length={min_len}")
            elif max_len is not None and length > max_len:
                bad.append(f"interval [{l},{r}) longer than max_segment_length={max_len}")
    for (a, b) in zip(iv[:-1], iv[1:]):
        if b[0] < a[0]:
            bad.append(f"intervals not sorted: {iv}")
            break
        if b[0] < a[1]:
            bad.append(f"intervals overlap: [{a[0]},{a[1]}) and [{b[0]},{b[1]})")
            break
    if p is not None:
        if "icolumns" not in out.columns:
            bad.append("no icolumns column")
        else:
            for cols in out["icolumns"]:
                cols = [int(c) for c in np.asarray(cols).ravel()]
                if len(cols) == 0:
                    bad.append("empty icolumns")
                if len(set(cols)) != len(cols):
                    bad.append(f"icolumns {cols} not distinct")
                if any(c < 0 or c >= p for c in cols):
                    bad.append(f"icolumns {cols} not in [0,{p})")
    return bad


def check_changepoints(acc, out, n, m, info, name, lo=None, hi=None, eng=None):
    bad = problems_changepoints(out, n, m, lo, hi)
    acc.concrete(f"wellformed.{name}", not bad, dict(info, detector=name, problems=bad[:3]), eng=eng)
    return not bad


def check_anomalies(acc, out, n, info, name, eng=None, **kw):
    bad = problems_anomalies(out, n, **kw)
    acc.concrete(f"wellformed.{name}", not bad, dict(info, detector=name, problems=bad[:3]), eng=eng)
    return not bad


def model_floats(model):
    out = {}
    for k, v in (model or {}).items():
        try:
            out[k] = float(Fraction(v))
        except Exception:
            pass
    return out
