"""C09 -- circular binary segmentation reports greedy disjoint above-threshold anomalies."""
from __future__ import annotations

from fractions import Fraction

import numpy as np
import pandas as pd
import z3

from symnp import proxy
from symnp.core import SymReal, rv
from symnp.drive import Acc, Harness, Job
from symnp.witness import FloatEval, close, robust_model

from .c07 import interval_problems
from .common import model_env, tsum
from .scorers import TableLocalScore, values_from_model
from .wellformed import check_anomalies, problems_anomalies

PROPERTY = "C09"
FUNCTIONS = [
    "skchange.anomaly_detectors.circular_binseg:make_anomaly_intervals",
    "skchange.anomaly_detectors.circular_binseg:greedy_anomaly_selection",
    "skchange.anomaly_detectors.circular_binseg:run_circular_binseg",
    "skchange.anomaly_detectors.circular_binseg:CircularBinarySegmentation.__init__",
    "skchange.anomaly_detectors.circular_binseg:CircularBinarySegmentation._fit",
    "skchange.anomaly_detectors.circular_binseg:CircularBinarySegmentation._get_threshold",
    "skchange.anomaly_detectors.circular_binseg:CircularBinarySegmentation._predict",
    "skchange.change_detectors.seeded_binseg:make_seeded_intervals",
    "skchange.anomaly_detectors.base:CollectiveAnomalyDetector._format_sparse_output",
]
BOUNDS = {
    "quick": "full detector runs: m=1: n<=4 (n=5 with growth factor 2); m=2: n<=7; m=3: n<=8; max_interval_length in "
             "{2m, 2m+1, n, 200}; growth_factor in {1.5, 2}; p in {1,2}; all scores and the threshold scale symbolic",
    "thorough": "m=1: n<=4, n=5 with M in {3,4} or growth factor 2; m=2: n<=8; m=3: n<=10; growth_factor in {1.5, 2}; p<=2",
}
STUBS = ["TableLocalScore: user-defined local anomaly score returning one free real per (start, inner start, inner end, end, column)"]
ASSUMPTIONS = ["threshold_scale >= 0", "greedy equivalence is decided on paths whose candidate scores can be pairwise distinct",
               "(n, m, max_interval_length, growth_factor) are enumerated, not symbolic"]
OUTSIDE = ["sizes beyond the bounds", "growth factors off the grid", "float ties"]


def avar(s, a, b, e, j):
    return z3.Real(f"A_{s}_{a}_{b}_{e}_{j}")


def dummy_X(n, p):
    return pd.DataFrame(np.zeros((n, p)))


def inner_intervals(s, e, m):
    return [(a, b) for a in range(s + 1, e) for b in range(a + m, e) if (a - s) + (e - b) >= m]


def reference_greedy(scores, inner, starts, ends, th, live):
    remaining = [i for i in range(len(scores)) if live[i]]
    out = []
    while True:
        cand = [i for i in remaining if bool(SymReal(scores[i]) > SymReal(th))]
        if not cand:
            break
        best = cand[0]
        for i in cand[1:]:
            if bool(SymReal(scores[i]) > SymReal(scores[best])):
                best = i
        a, b = inner[best]
        out.append((a, b))
        remaining = [i for i in remaining if not (b > starts[i] and a < ends[i])]
        if best in remaining:       # cannot happen for an admissible inner interval
            return None
    return sorted(out)


def make_cbs(n, m, M, gf, p=1, mode="c09", o3=False):
    ts = z3.Real("tscale")
    dts = z3.Real("dtscale")
    base = [ts >= 0, dts >= 0]
    X = dummy_X(n, p)
    info = dict(n=n, m=m, M=M, gf=gf, p=p)

    def run(eng, acc):
        from skchange.anomaly_detectors import CircularBinarySegmentation as CBS
        from .prelude import prelude
        prelude("CBS", n, p, m, M)
        try:
            det = CBS(TableLocalScore(p=p), threshold_scale=SymReal(ts), min_segment_length=m,
                      max_interval_length=M, growth_factor=gf)
            det.fit(X)
            th = rv(det.threshold_)
            out = det.predict(X)
            anoms = [(int(i.left), int(i.right)) for i in out["ilocs"]]
            sc = det.scores
        except Exception as ex:
            acc.concrete("runs_to_completion", False, dict(info, exception=f"{type(ex).__name__}: {ex}"[:200]), eng=eng)
            return
        acc.concrete("runs_to_completion", True)
        acc.add_to("outputs", tuple(anoms))
        check_anomalies(acc, out, n, info, "CircularBinarySegmentation", eng=eng, min_len=m, strict_inside=True)
        starts = [int(v) for v in sc["interval_start"]]
        ends = [int(v) for v in sc["interval_end"]]
        vals = [rv(v) for v in sc["score"]]
        bad = interval_problems(starts, ends, n, m, M)
        acc.concrete("O0.candidate_intervals", not bad, dict(info, problems=bad[:3]), eng=eng)
        if mode == "c04" or bad:
            return
        rep = [(int(a), int(b)) for a, b in zip(sc["argmax_anomaly_start"], sc["argmax_anomaly_end"])]
        live = []
        for i, (s, e) in enumerate(zip(starts, ends)):
            inn = inner_intervals(s, e, m)
            live.append(bool(inn))
            if not inn:
                # no admissible inner interval: the candidate must never be selected
                acc.concrete("O1.empty_candidate_not_selected", not any(b > s and a < e and (a, b) == rep[i] for a, b in anoms) or rep[i] not in anoms, dict(info, interval=(s, e)), eng=eng)
                # ... and whatever its scores row reports, it is not a proper interval outside the candidate (seed C09-f:
                # the row inherited the next candidate's inner interval); a degenerate marker such as (0, 0) is fine
                a_, b_ = rep[i]
                acc.concrete("O1.empty_candidate_reports_no_interval_outside_itself", a_ >= b_ or (s <= a_ and b_ <= e),
                             dict(info, interval=(s, e), reported=rep[i]), eng=eng)
                continue
            terms = {ab: tsum([avar(s, ab[0], ab[1], e, j) for j in range(p)]) for ab in inn}
            acc.concrete("O1.argmax_admissible", rep[i] in terms, dict(info, interval=(s, e), reported=rep[i]), eng=eng)
            if rep[i] not in terms:
                return
            acc.oblige(eng, "O1.score_is_max", z3.And([vals[i] >= t for t in terms.values()]), dict(info, interval=(s, e)))
            acc.oblige(eng, "O1.score_at_argmax", vals[i] == terms[rep[i]], dict(info, interval=(s, e), reported=rep[i]))
        exceeds = []
        for v in vals:
            ok, _ = eng.valid(v > th)
            if ok is True:
                exceeds.append(True)
            else:
                ok2, _ = eng.valid(z3.Not(v > th))
                exceeds.append(False if ok2 is True else None)
        for ab in anoms:
            sup = [i for i in range(len(vals)) if live[i] and rep[i] == ab and exceeds[i] is True]
            acc.concrete("O2.anomaly_supported", bool(sup), dict(info, anomaly=ab, anomalies=anoms), eng=eng)
        for i in range(len(vals)):
            if live[i] and exceeds[i] is True:
                acc.concrete("O2.no_untouched_candidate", any(b > starts[i] and a < ends[i] for a, b in anoms),
                             dict(info, interval=(starts[i], ends[i]), anomalies=anoms), eng=eng)
        _witness(eng, acc, n, m, M, gf, p, anoms, vals)
        acc.sample(dict(info, anomalies=anoms, intervals=list(zip(starts, ends)), argmax=rep))
        if o3:
            det2 = CBS(TableLocalScore(p=p), threshold_scale=SymReal(ts + dts), min_segment_length=m,
                       max_interval_length=M, growth_factor=gf)
            out2 = det2.fit(X).predict(X)
            an2 = [(int(i.left), int(i.right)) for i in out2["ilocs"]]
            acc.concrete("O3.threshold_monotone", set(an2) <= set(anoms), dict(info, anomalies=anoms, anomalies_higher=an2), eng=eng)
        lv = [vals[i] for i in range(len(vals)) if live[i]]
        distinct = [lv[i] != lv[j] for i in range(len(lv)) for j in range(i + 1, len(lv))]
        if distinct:
            eng.assume(z3.And(distinct))
        ref = reference_greedy(vals, rep, starts, ends, th, live)
        acc.concrete("O2.equals_reference_greedy", ref == anoms, dict(info, anomalies=anoms, reference=ref), eng=eng)

    return Harness(run, base, name=f"cbs {info}")


def _native(n, m, M, gf, p, values, tscale):
    from skchange.anomaly_detectors import CircularBinarySegmentation as CBS
    from .prelude import prelude
    prelude("CBS", n, p, m, M)
    with proxy.native():
        det = CBS(TableLocalScore(p=p, values=values), threshold_scale=float(tscale), min_segment_length=m,
                  max_interval_length=M, growth_factor=gf)
        X = dummy_X(n, p)
        det.fit(X)
        out = det.predict(X)
        return out, det.scores.copy(), float(det.threshold_)


def _witness(eng, acc, n, m, M, gf, p, anoms, vals, cap=40):
    if acc.total("witness_tried") >= cap:
        return
    acc.inc("witness_tried")
    model, _ = robust_model(eng)
    if model is None:
        acc.inc("witness_tie_only_path")
        return
    env = model_env(model)
    values = {k: v for k, v in env.items() if k.startswith("A_")}
    try:
        out, sc, _ = _native(n, m, M, gf, p, values, env.get("tscale", 0.0))
    except Exception as ex:
        acc.error(f"C09 witness: native run raised {type(ex).__name__}: {ex}")
        return
    fe = FloatEval(env, eng)
    got = [(int(i.left), int(i.right)) for i in out["ilocs"]]
    ok = got == anoms and all(close(float(a), fe(b), 1e-7, 1e-7) for a, b in zip(sc["score"], vals))
    if ok:
        acc.inc("witness_ok")
    else:
        acc.error(f"C09 witness mismatch {dict(n=n, m=m, M=M, gf=gf)}: symbolic {anoms} native {got} values {values}")


def jobs(tier, mode="c09"):
    Mod = "harness.c09"
    out = []
    if tier == "quick":
        cfgs = []
        for n in (2, 3, 4):
            for M in sorted({2, 3, n, 200}):
                cfgs.append((n, 1, M, 1.5, 1))
        cfgs += [(4, 1, 200, 1.5, 2), (5, 1, 3, 1.5, 1), (5, 1, 200, 2.0, 1)]
        for n in (4, 5, 6, 7):
            for M in sorted({4, 5, n, 200}):
                cfgs.append((n, 2, M, 1.5, 1))
        cfgs += [(6, 2, 200, 1.5, 2), (6, 3, 6, 1.5, 1), (7, 3, 200, 1.5, 1), (8, 3, 7, 2.0, 1)]
    else:
        cfgs = []
        for n in range(2, 5):
            for M in sorted({2, 3, n, 200}):
                for gf in (1.5, 2.0):
                    cfgs.append((n, 1, M, gf, 1))
        cfgs += [(5, 1, 3, 1.5, 1), (5, 1, 200, 2.0, 1), (5, 1, 4, 1.5, 1), (5, 1, 5, 1.5, 1), (6, 1, 3, 1.5, 1)]
        cfgs += [(4, 1, 200, 1.5, 2)]
        for m in (2, 3):
            for n in range(2 * m, 10 if m == 2 else 12):
                for M in sorted({2 * m, 2 * m + 1, n, 200}):
                    for gf in (1.5, 2.0):
                        cfgs.append((n, m, M, gf, 1))
        cfgs += [(7, 2, 200, 1.5, 2)]
    seen = set()
    for (n, m, M, gf, p) in cfgs:
        big = (n - 2 * m >= 2 and min(M, n) - 2 * m >= 1)
        key = (n, m, min(M, n), gf, p)
        if big and key in seen:
            continue
        seen.add(key)
        o3 = mode == "c09" and (n - 2 * m <= 2)
        out.append(Job(Mod, "make_cbs", dict(n=n, m=m, M=M, gf=gf, p=p, mode=mode, o3=o3), split=big))
    return out


def extra(tier, seed):
    """E2: CrossHair contracts of the pure-Python helpers this property rests on (thorough tier)."""
    if tier != "thorough":
        return None
    from .e2 import run_specs
    return run_specs(["make_anomaly_intervals"], timeout=90)


def replay(cx):
    from .e2 import replay_cx
    _e2 = replay_cx(cx)
    if _e2 is not None:
        return _e2
    info = cx.get("info") or {}
    model = cx.get("model") or {}
    ob = cx["ob"]
    n, m, M, gf, p = info.get("n"), info.get("m"), info.get("M"), info.get("gf"), info.get("p", 1)
    values = values_from_model(model, ["A"])
    tscale = float(Fraction(model.get("tscale", "1")))
    key = ob if ob != "runs_to_completion" else f"runs_to_completion|m={'1' if m == 1 else '>=2'}"
    try:
        out, sc, th = _native(n, m, M, gf, p, values, tscale)
    except Exception as ex:
        return dict(reproduced=True, key=key, what=f"CircularBinarySegmentation(min_segment_length={m}, max_interval_length={M}, "
                    f"growth_factor={gf}) on n={n} raised {type(ex).__name__}: {ex}")
    starts, ends = [int(v) for v in sc["interval_start"]], [int(v) for v in sc["interval_end"]]
    rep = [(int(a), int(b)) for a, b in zip(sc["argmax_anomaly_start"], sc["argmax_anomaly_end"])]
    vals = [float(v) for v in sc["score"]]
    anoms = [(int(i.left), int(i.right)) for i in out["ilocs"]]
    bad = interval_problems(starts, ends, n, m, M) + problems_anomalies(out, n, min_len=m, strict_inside=True)
    g = lambda s, a, b, e: sum(values.get(f"A_{s}_{a}_{b}_{e}_{j}", 0.0) for j in range(p))
    live = []
    for i, (s, e) in enumerate(zip(starts, ends)):
        cand = {ab: g(s, ab[0], ab[1], e) for ab in inner_intervals(s, e, m)}
        live.append(bool(cand))
        if not cand:
            if rep[i][0] < rep[i][1] and not (s <= rep[i][0] and rep[i][1] <= e):
                bad.append(f"candidate [{s},{e}) has no admissible inner interval but its scores row reports {rep[i]}, an interval outside the candidate")
            continue
        best = max(cand.values())
        if rep[i] not in cand or abs(vals[i] - best) > 1e-9 or abs(cand.get(rep[i], 1e99) - best) > 1e-9:
            bad.append(f"candidate [{s},{e}): reported score {vals[i]:.6g} with inner interval {rep[i]}, true max {best:.6g} over {sorted(cand)}")
    lv = [vals[i] for i in range(len(vals)) if live[i]]
    if len(set(lv)) == len(lv):
        rem, ref = [i for i in range(len(vals)) if live[i]], []
        while True:
            cand = [i for i in rem if vals[i] > th]
            if not cand:
                break
            b_ = max(cand, key=lambda i: vals[i])
            a, b = rep[b_]
            ref.append((a, b))
            rem = [i for i in rem if not (b > starts[i] and a < ends[i])]
            if b_ in rem:
                bad.append(f"reported inner interval {rep[b_]} does not overlap its own candidate [{starts[b_]},{ends[b_]})")
                break
        if sorted(ref) != anoms:
            bad.append(f"anomalies {anoms} but greedy reference gives {sorted(ref)} (scores {vals}, threshold {th:.6g})")
    if "anomalies_higher" in info:
        dts = float(Fraction(model.get("dtscale", "0")))
        out2, _, _ = _native(n, m, M, gf, p, values, tscale + dts)
        an2 = [(int(i.left), int(i.right)) for i in out2["ilocs"]]
        if not set(an2) <= set(anoms):
            bad.append(f"raising the threshold scale {tscale}->{tscale + dts} changed {anoms} into {an2}")
    return dict(reproduced=bool(bad), key=key, what=(f"CircularBinarySegmentation(m={m}, M={M}, gf={gf}) n={n} p={p}: " + "; ".join(bad[:2]) + f" [table {values}]")[:700])
