#!/usr/bin/env python3
"""Regenerates MANIFEST.json from the table below (kept in one place so that the
manifest is always valid and in step with the harness modules)."""
import json, os
HERE = os.path.dirname(os.path.dirname(os.path.abspath(__file__)))
CLAIMED = {
    "C01": ("value==definition, shape, error path and batch independence of the three built-in costs, "
            "decided per admissible interval by z3 (NRA, Ackermannised log) on the terms produced by "
            "symbolically executing fit/evaluate on a matrix of real variables",
            "4.C01"),
    "C02": ("PELT with a table cost of free real variables (any user cost satisfying the split inequality) and a "
            "symbolic penalty scale: per path z3 (LRA) decides that every prefix score is the minimum over all "
            "admissible segmentations and that the final score is the cost of the returned changepoints",
            "4.C02"),
    "C08": ("MovingWindow with a table change score of free reals and symbolic threshold scale: the score at t is "
            "the term T(t-b,t,t+b) summed over columns (0 elsewhere), detections are one maximiser per maximal "
            "qualifying run of score>threshold (each comparison implied by the path condition), and a product run "
            "on the mirrored table shows the time-reversal symmetry; the same on integer-typed data; plus ChangeScore(L2Cost) "
            "on symbolic data",
            "4.C08"),
    "C07": ("SeededBinarySegmentation with a table change score of free reals and symbolic threshold scale over an "
            "enumerated (n, m, M, growth factor) grid: candidate intervals admissible and non-empty, per-interval "
            "score/argmax are max/argmax of the table terms (z3, LRA), support/coverage, threshold monotonicity "
            "(product run) and equality with an independent greedy executed in the same path on tie-free paths",
            "4.C07"),
    "C09": ("CircularBinarySegmentation with a table local anomaly score of free reals: per candidate the reported "
            "score / inner interval are max / argmax over the admissible inner intervals (z3, LRA), greedy selection "
            "with overlap removal equals an independent reference on tie-free paths, support / coverage and threshold "
            "monotonicity (product run)",
            "4.C09"),
    "C03": ("CAPA and MVCAPA with table savings of free reals (non-negative, sub-additive) and symbolic penalties "
            "(MVCAPA: user penalty callables, one job per structural penalty regime): per path z3 (LRA) decides that "
            "every cumulative score equals the explicit maximum over all admissible anomaly sets of the prefix, that "
            "the returned anomalies re-evaluate to the final score, and (product run) that ignore_point_anomalies "
            "drops exactly the point anomalies",
            "4.C03"),
    "C16": ("MVCAPA runs with table savings and symbolic penalties plus find_affected_components as a unit: for every "
            "reported anomaly z3 (LRA) decides that the listed columns are in decreasing saving order, that no excluded "
            "column beats an included one and that their penalised saving dominates that of every non-empty column "
            "subset; transform marks exactly those cells; the same when the detector is fitted on labelled columns and asked "
            "about the same columns in another order (column-tagged table savings)",
            "4.C16"),
    "C04": ("path enumeration of all seven detectors on table scorers of free reals (each path = one reachable "
            "control-flow behaviour for the size); on every path the concrete output frame is checked for index, "
            "dtype, ordering, disjointness, range and the configured length limits",
            "4.C04"),
    "C06": ("the three adapters over table / uninterpreted costs return exactly the defining cost differences (term "
            "identities decided by z3); CUSUM^2 and L2Saving equal the L2-cost definitions on symbolic data (NRA, sqrt "
            "as a defined algebraic number); non-negativity, optimal<=fixed and the split inequality for L2 (nlsat) "
            "and for the univariate Gaussian cost with explicitly instantiated log lemmas (with a vacuity twin); the three "
            "adapters over every built-in cost in every parameter mode (symbolic data, symbolic scalar / per-column parameters) "
            "against that cost's own evaluate; native differential run on int32 / int64 count data (testing part)",
            "4.C06"),
    "C13": ("evaluate of eight scorers on a cut row of symbolic integers in [-2, n+2]^k: the scorer's own validation "
            "forks on them, indexing case-splits all feasible values through NumPy's real indexing; z3 decides on "
            "every returning path that the path condition implies a valid cut, on every raising path that the "
            "exception is ValueError and the cut invalid, and (L2 family) that the value is the definition; four compositions "
            "over costs with min_size > 1 on symbolic cuts over concrete data; plus concrete malformed arrays",
            "4.C13"),
    "C15": ("fit with a symbolic scale on dummy frames: penalty_/threshold_ equal scale x the documented default (z3, "
            "linear in the scale); the four MVCAPA penalty families with symbolic scale: non-negative, cumulative "
            "non-decreasing, proportional, dense/sparse formulas, combined == pointwise minimum; tuned thresholds are the "
            "quantile stub's value on exactly the training scores and 1-level; PELT changepoint count is monotone in the "
            "penalty (product run on one symbolic cost table)",
            "4.C15"),
    "C18": ("the generators run with scipy's rvs replaced by a stub returning symbolic draws: positions symbolic in "
            "[-1, n+1] (validation forks, slices case-split), symbolic means / variances; z3 decides that every entry is "
            "mean + sqrt(var) z inside the requested segment and z elsewhere, that positions outside the data raise "
            "ValueError and valid ones do not, that equal arguments give identical terms, and that add_linspace_outliers "
            "touches exactly the evenly spaced rows; disjoint anomalies in any listed order with one symbolic mean / variance "
            "per anomaly and column; real-RNG runs with per-column parameters against mean + sqrt(var) * Z0 of the same seed",
            "4.C18"),
    "C17": ("StatThresholdAnomaliser over a stub change detector returning any changepoint list of symbolic integers and a "
            "statistic returning one free real per segment, with symbolic bounds: on every path the reported intervals are "
            "exactly the segments whose flag (stat<lower or stat>upper) the path condition implies (z3), adjacent flagged "
            "segments stay separate, the user's detector stays unfitted; same with real PELT / MovingWindow / SBS on "
            "table scorers inside (product run); lower>upper raises ValueError; the real NumPy reductions mean / var / std / "
            "median / max / min / sum on symbolic data against their textbook definitions (NRA)",
            "4.C17"),
    "C05": ("detection sets as tuples of symbolic integers under the validity predicate of the sparse format, every "
            "solution enumerated by the solver (all-SAT through integer case splitting) and pushed through "
            "sparse_to_dense / dense_to_sparse / transform (stub detectors) for seven index kinds and two column "
            "labelings; bounded-exhaustive over that solver-enumerated space, compared with a plain-Python oracle",
            "4.C05"),
    "C14": ("constructors of all seven detectors on symbolic hyper-parameters in boxes around the documented domain "
            "(validation forks on them; pd.Interval contract stub): z3 decides raises => ValueError and outside the "
            "documented domain, returns => inside; boundary configurations (m=1, b=1, M=2m, n=minimum) run every path "
            "of the table-scorer detector runs without exception; plus a concrete grid of data lengths around the "
            "minimum and NaN positions with the built-in scorers",
            "4.C14"),
    "C12": ("scorers on symbolic data evaluated on X and on the transformed X (column permutation, symbolic per-column "
            "shift, symbolic positive scale with instantiated log(ab) lemma, time reversal) in the same path: z3 (NRA) "
            "decides equality of the two terms for every cut; detectors with column-permuted table scorers, PELT on the "
            "reversed and on the length-shifted cost table, MovingWindow on shifted symbolic data (product runs); reversal and "
            "column reversal also with one scorer object refitted on a view of the data it holds",
            "4.C12"),
    "C11": ("product runs in one symbolic path: the same matrix of symbolic values handed to each detector (table scorers "
            "recording what they are fitted on) and to the built-in scorers as DataFrame / ndarray / Series / other labels "
            "and indexes through fit, predict, transform, transform_scores and update; outputs compared as detections and "
            "as z3 terms; int64 vs float64 compared natively at solver-generated integer witnesses (testing part)",
            "4.C11"),
    "C10": ("product programs: twenty enumerated call histories (earlier predict / transform / fits on other data, on other "
            "shapes and on another dataset of the SAME shape and index, repeated calls, a second detector sharing the scorer "
            "object, a differently configured instance first, clone, set_params, nested parameters, update vs fit on combined "
            "data, a caller-side buffer refilled in place between fit and predict with thresholds tuned at fit) and their "
            "fresh-object references run in the same symbolic path with dataset-tagged table scorers; observed outputs compared "
            "as detections and z3 terms; fit / evaluate histories of eight scorers on symbolic data incl. the same cuts on "
            "same-shape data, a reused buffer and refits on views; native run: the caller's float64 buffers are bit-for-bit "
            "unchanged after fit / evaluate / predict / transform (testing part)",
            "4.C10"),
}
PENDING = {}
TITLES = {}
for line in open(os.path.join(HERE, "properties.jsonl")):
    p = json.loads(line)
    TITLES[p["id"]] = p["title"]
checks = []
for pid, (text, ref) in sorted(CLAIMED.items()):
    checks.append(dict(
        property_id=pid,
        quick_cmd=f"./check {pid} --tier quick",
        thorough_cmd=f"./check {pid} --tier thorough",
        evidence_file=f"/verif/evidence/{pid}.json",
        replay_cmd_template=f"./check {pid} --replay {{path}}",
        engine="symnp",
        level_claimed=dict(category="model_checking",
                           text="bounded symbolic execution of the real code, every path condition and "
                                "obligation decided by z3 within the stated bounds: " + text,
                           design_ref=f"DESIGN.md section {ref}"),
        level_note="exact real/integer arithmetic (floats as reals); bounds, stubs and assumptions are "
                   "listed in the evidence file; counterexamples are replayed natively before being reported",
        technique="symbolic execution of the real Python/NumPy code (object arrays of z3 terms) + z3 SMT "
                  "validity queries per path; CrossHair for pure-Python helpers",
    ))
na = [dict(property_id=pid, reason=PENDING.get(pid, "check not built yet (work in progress; see DESIGN.md section 4)"))
      for pid in sorted(TITLES) if pid not in CLAIMED]
man = dict(
    version=1,
    setup_cmd="./setup.sh",
    hooks=dict(guard="SKCHANGE_VERIF", enable="no source hooks are needed: symbolic values enter through public "
               "arguments and `np` is rebound in skchange.* module globals at harness time",
               baseline_off_cmd="cd /repo && /venv/bin/python -m pytest -q -p no:cacheprovider --timeout=900",
               source_commits=[], add_only=True),
    engines=[dict(name="symnp", path="/verif/symnp", serves_properties=sorted(CLAIMED),
                  kind_free_text="path-exploring symbolic executor for NumPy-style Python on z3 (own code)"),
             dict(name="crosshair", path="/verif/crosshair_specs", serves_properties=[],
                  kind_free_text="CrossHair 0.0.110 contracts for pure-Python helpers")],
    checks=checks,
    not_applicable=na,
    notes="All checks: ./check <id> --tier quick|thorough. Exit 0 held / 1 reproduced violation / 3 harness error. "
          "Measured wall times on 16 cores, repaired tree, each thorough command run end-to-end (0 inconclusive obligations in every run): "
          "quick C01 10s C02 21 C03 37 C04 17 C05 7 C06 11 C07 32 C08 8 C09 7 C10 80 C11 27 C12 31 C13 4 C14 10 C15 15 C16 14 C17 7 C18 8 (~6 min); "
          "thorough (first figure: 16 processes, second session; figures marked * were re-measured in the third session with 6 processes on a loaded "
          "machine after the harness additions) C01 73s C02 279 C03 181 C04 162 C05 53 C06 94* C07 433 C08 99* C09 337 C10 579* C11 134 C12 254* C13 78* "
          "C14 50 C15 297 C16 280* C17 132* C18 185* (~65 min). The two inconclusive obligations seen in the loaded re-measurement (one 40 s solver "
          "time-out each in C12 and C13) are reported as INCONCLUSIVE lines, not as passes. "
          "Thorough additionally runs the CrossHair contracts (C02, C03, C08, C09) and the sampled z3-4.8.12 / cvc5 cross-check of obligations.",
)
json.dump(man, open(os.path.join(HERE, "MANIFEST.json"), "w"), indent=1)
print("claimed", sorted(CLAIMED), "not_applicable", [x["property_id"] for x in na])
