#!/bin/sh
# tools/try_benign_wt.sh <dir with patch.diff of a behaviour-preserving refactoring> <tier> <check ids...>
# Scratch-worktree version of try_benign.sh: applies the refactoring to a worktree of /repo's HEAD and runs the checks
# against it (PYTHONPATH override, evidence to VERIF_OUT).  Required outcome: exit 0 for every check.
D="$(cd "$1" && pwd)"; TIER="$2"; shift 2
NAME="$(basename "$D")"
WT="/tmp/wtben_$NAME"; OUT="/tmp/wtbout_$NAME"; LOG="${VERIF_TRIAL_LOGS:-/tmp/seedlogs}"
mkdir -p "$LOG"
git -C /repo worktree remove --force "$WT" >/dev/null 2>&1; rm -rf "$WT" "$OUT"
git -C /repo worktree add -q --detach "$WT" || exit 3
git -C "$WT" apply "$D/patch.diff" || { echo "$NAME patch does not apply"; git -C /repo worktree remove --force "$WT"; exit 3; }
cd "$(dirname "$0")/.."
rc=0
for id in "$@"; do
  PYTHONPATH="$WT" VERIF_OUT="$OUT" ./check "$id" --tier "$TIER" > "$LOG/$NAME.check_$id.log" 2>&1; code=$?
  echo "$NAME check $id ($TIER) exit=$code violations=$(grep -c '^VIOLATION' "$LOG/$NAME.check_$id.log") harness_errors=$(grep -c '^HARNESS-ERROR' "$LOG/$NAME.check_$id.log") | $(tail -1 "$LOG/$NAME.check_$id.log" | cut -c1-160)"
  [ $code -eq 0 ] || rc=1
done
git -C /repo worktree remove --force "$WT"; rm -rf "$WT" "$OUT"
exit $rc
