"""C14 -- documented-valid configurations always run; invalid ones fail with ValueError."""
from __future__ import annotations

import contextlib
from fractions import Fraction

import numpy as np
import pandas as pd
import z3

from symnp import proxy
from symnp.core import Engine, SymBool, SymInt, SymReal, is_sym, rv
from symnp.drive import Acc, Harness, Job

from . import c02, c03, c07, c08, c09
from .wellformed import problems_anomalies, problems_changepoints

PROPERTY = "C14"
FUNCTIONS = [
    "skchange.utils.validation.parameters:check_larger_than",
    "skchange.utils.validation.parameters:check_smaller_than",
    "skchange.utils.validation.parameters:check_in_interval",
    "skchange.utils.validation.data:check_data",
    "skchange.change_detectors.pelt:PELT.__init__",
    "skchange.change_detectors.moving_window:MovingWindow.__init__",
    "skchange.change_detectors.seeded_binseg:SeededBinarySegmentation.__init__",
    "skchange.anomaly_detectors.circular_binseg:CircularBinarySegmentation.__init__",
    "skchange.anomaly_detectors.capa:CAPA.__init__",
    "skchange.anomaly_detectors.mvcapa:MVCAPA.__init__",
    "skchange.anomaly_detectors.anomalisers:StatThresholdAnomaliser.__init__",
]
BOUNDS = {
    "quick": "constructors: integer hyper-parameters symbolic in [-1, 6] (max lengths [-1, 9]), real ones in [-1, 3] "
             "(growth_factor [1/2, 5/2]); data: lengths min-2..min+2, NaN at every position, p in {1,2}, default and "
             "cost-derived scorers; boundary configurations (m=1, b=1, M=2m, n=minimum) through the table-scorer runs of "
             "C02/C03/C07/C08/C09",
    "thorough": "the same boxes; data grid p<=3 and more scorers; boundary runs at the thorough bounds of the detector checks",
}
STUBS = ["pd.Interval inside the three detector modules that use it: object whose __contains__ is left <(=) x <(=) right "
         "(pandas' own Interval.__contains__ raises TypeError on a symbolic operand)", "table scorers for the boundary runs"]
ASSUMPTIONS = ["documented domain transcribed from the class docstrings and the property text: scales >= 0; PELT / SBS / CBS "
               "min_segment_length >= 1, CAPA / MVCAPA >= 2; max_interval_length >= 2*min_segment_length; max_segment_length "
               ">= min_segment_length; growth_factor in (1, 2]; bandwidth >= 1; 1 <= min_detection_interval <= "
               "max(1, bandwidth/2); stat_lower <= stat_upper"]
OUTSIDE = ["hyper-parameters of non-numeric type", "level (kept at its default)", "n beyond minimum+2 for the data grid"]


class IntervalStub:
    def __init__(self, left, right, closed="right"):
        self.left, self.right, self.closed = left, right, closed

    def __contains__(self, x):
        lo = (x >= self.left) if self.closed in ("both", "left") else (x > self.left)
        hi = (x <= self.right) if self.closed in ("both", "right") else (x < self.right)
        return bool(lo) and bool(hi)

    def __str__(self):
        return f"{'[' if self.closed in ('both', 'left') else '('}{self.left}, {self.right}{']' if self.closed in ('both', 'right') else ')'}"


class PdProxy:
    Interval = IntervalStub

    def __getattr__(self, name):
        return getattr(pd, name)


@contextlib.contextmanager
def interval_stub():
    import skchange.anomaly_detectors.circular_binseg as m1
    import skchange.change_detectors.moving_window as m2
    import skchange.change_detectors.seeded_binseg as m3
    mods = [m for m in (m1, m2, m3) if getattr(m, "pd", None) is pd]
    for m in mods:
        m.pd = PdProxy()
    try:
        yield
    finally:
        for m in mods:
            m.pd = pd


def ctor_spec(det):
    """(variables, box constraints, documented-valid predicate, constructor thunk)"""
    I = lambda name: z3.Int(name)
    R = lambda name: z3.Real(name)
    m, M, b, mdi = I("m"), I("M"), I("b"), I("mdi")
    s1, s2, gf, lo, hi = R("scale1"), R("scale2"), R("gf"), R("lo"), R("hi")
    ibox = lambda v, hi_=6: z3.And(v >= -1, v <= hi_)
    rbox = lambda v: z3.And(v >= -1, v <= 3)
    from skchange.anomaly_detectors import CAPA, MVCAPA, CircularBinarySegmentation, StatThresholdAnomaliser
    from skchange.change_detectors import PELT, MovingWindow, SeededBinarySegmentation
    if det == "PELT":
        return [ibox(m), rbox(s1)], z3.And(s1 >= 0, m >= 1), lambda: PELT(penalty_scale=SymReal(s1), min_segment_length=SymInt(m))
    if det == "MovingWindow":
        half = z3.ToReal(b) / 2
        return ([ibox(b), ibox(mdi), rbox(s1)],
                z3.And(s1 >= 0, b >= 1, mdi >= 1, z3.ToReal(mdi) <= z3.If(half >= 1, half, z3.RealVal(1))),
                lambda: MovingWindow(bandwidth=SymInt(b), threshold_scale=SymReal(s1), min_detection_interval=SymInt(mdi)))
    if det in ("SBS", "CBS"):
        cls = SeededBinarySegmentation if det == "SBS" else CircularBinarySegmentation
        return ([ibox(m), ibox(M, 9), rbox(s1), z3.And(gf >= Fraction(1, 2), gf <= Fraction(5, 2))],
                z3.And(s1 >= 0, m >= 1, M >= 2 * m, gf > 1, gf <= 2),
                lambda: cls(threshold_scale=SymReal(s1), min_segment_length=SymInt(m), max_interval_length=SymInt(M), growth_factor=SymReal(gf)))
    if det in ("CAPA", "MVCAPA"):
        cls = CAPA if det == "CAPA" else MVCAPA
        return ([ibox(m), ibox(M, 9), rbox(s1), rbox(s2)], z3.And(s1 >= 0, s2 >= 0, m >= 2, M >= m),
                lambda: cls(collective_penalty_scale=SymReal(s1), point_penalty_scale=SymReal(s2), min_segment_length=SymInt(m), max_segment_length=SymInt(M)))
    if det == "StatThresholdAnomaliser":
        return ([rbox(lo), rbox(hi)], lo <= hi,
                lambda: StatThresholdAnomaliser(MovingWindow(bandwidth=3), stat_lower=SymReal(lo), stat_upper=SymReal(hi)))
    raise ValueError(det)


def make_ctor(det):
    box, valid, thunk = ctor_spec(det)
    info = dict(part="constructor", det=det)

    def run(eng, acc):
        _, valid, thunk = ctor_spec(det)
        with interval_stub():
            try:
                thunk()
            except ValueError:
                acc.inc("paths_raising_ValueError")
                acc.oblige(eng, "constructor.no_documented_valid_configuration_rejected", z3.Not(valid), info)
                return
            except Exception as ex:
                acc.inc("paths_raising_other")
                ok, _ = eng.valid(valid)
                acc.oblige(eng, "constructor.only_ValueError_is_raised", z3.BoolVal(False), dict(info, exception=f"{type(ex).__name__}: {ex}"[:160]))
                return
        acc.inc("paths_constructing")
        acc.oblige(eng, "constructor.no_invalid_configuration_accepted", valid, info)
        acc.sample(dict(info, path=[str(c)[:60] for c in eng.pc[: eng.synced]][:8]))

    return Harness(run, box, name=f"ctor {det}")


# ---------------------------------------------------------------------------------- data grid (concrete)

def _detectors(p):
    from skchange.anomaly_detectors import CAPA, MVCAPA, CircularBinarySegmentation, StatThresholdAnomaliser
    from skchange.change_detectors import PELT, MovingWindow, SeededBinarySegmentation
    from skchange.costs import GaussianCovCost, GaussianVarCost, L2Cost
    out = []
    for m in (1, 2, 3):
        out.append((f"PELT(m={m})", lambda m=m: PELT(min_segment_length=m), 2 * m, "cp", dict(m=m)))
        out.append((f"SBS(m={m},M={2 * m})", lambda m=m: SeededBinarySegmentation(min_segment_length=m, max_interval_length=2 * m), 2 * m, "cp", dict(m=m)))
        out.append((f"SBS(m={m},M=200,tuned)", lambda m=m: SeededBinarySegmentation(min_segment_length=m, threshold_scale=None), 2 * m, "cp", dict(m=m)))
        out.append((f"CBS(m={m},M={2 * m})", lambda m=m: CircularBinarySegmentation(min_segment_length=m, max_interval_length=2 * m), 2 * m, "an", dict(min_len=m, strict_inside=True)))
        out.append((f"CBS(m={m},tuned)", lambda m=m: CircularBinarySegmentation(min_segment_length=m, threshold_scale=None), 2 * m, "an", dict(min_len=m, strict_inside=True)))
    for b in (1, 2, 4):
        out.append((f"MovingWindow(b={b})", lambda b=b: MovingWindow(bandwidth=b), 2 * b, "mw", dict(b=b)))
        out.append((f"MovingWindow(b={b},tuned)", lambda b=b: MovingWindow(bandwidth=b, threshold_scale=None), 2 * b, "mw", dict(b=b)))
    out.append(("MovingWindow(b=4,mdi=2)", lambda: MovingWindow(bandwidth=4, min_detection_interval=2), 8, "mw", dict(b=4)))
    for m in (2, 3):
        out.append((f"CAPA(m={m},M={m})", lambda m=m: CAPA(min_segment_length=m, max_segment_length=m), m, "an", dict(min_len=m, max_len=m, point_ok=True)))
        out.append((f"MVCAPA(m={m},M=1000)", lambda m=m: MVCAPA(min_segment_length=m), m, "an", dict(min_len=m, max_len=1000, point_ok=True, p=p)))
    out.append(("PELT(GaussianVarCost,m=2)", lambda: PELT(GaussianVarCost(), min_segment_length=2), 4, "cp", dict(m=2)))
    out.append(("PELT(GaussianVarCost,m=1)", lambda: PELT(GaussianVarCost(), min_segment_length=1), 2, "cp", dict(m=1)))
    out.append(("MovingWindow(L2Cost,b=1)", lambda: MovingWindow(L2Cost(), bandwidth=1), 2, "mw", dict(b=1)))
    out.append(("CBS(GaussianCovCost,m=3)", lambda: CircularBinarySegmentation(GaussianCovCost(), min_segment_length=3, max_interval_length=6), 6, "an", dict(min_len=3, strict_inside=True)))
    if p == 1:
        out.append(("StatThresholdAnomaliser(MovingWindow(b=1))", lambda: StatThresholdAnomaliser(MovingWindow(bandwidth=1)), 2, "an", dict(min_len=1)))
        out.append(("StatThresholdAnomaliser(PELT(m=1))", lambda: StatThresholdAnomaliser(PELT(min_segment_length=1)), 2, "an", dict(min_len=1)))
    return out


def _datasets(n, p, seed):
    rng = np.random.default_rng(seed + 17 * n + p)
    base = {
        "zeros": np.zeros((n, p)),
        "ramp": np.arange(n * p, dtype=float).reshape(n, p),
        "alternating": np.array([[(-1.0) ** i * (3 + j) for j in range(p)] for i in range(n)]).reshape(n, p),
        "spike": np.array([[100.0 if i == n // 2 else 0.0 for _ in range(p)] for i in range(n)]).reshape(n, p),
        "random": rng.integers(-5, 6, size=(n, p)).astype(float),
    }
    return base


def classify(name, make, nmin, kind, kw, X, has_nan):
    """Returns None if the outcome is permitted, else a description."""
    n = len(X)
    try:
        det = make()
        det.fit(X)
        out = det.predict(X)
    except ValueError as ex:
        if has_nan or n < nmin:
            return None
        if "min_size" in str(ex) and "Gaussian" in name:
            return None        # the chosen cost cannot score segments as short as requested
        return f"ValueError on valid input: {str(ex)[:100]}"
    except RuntimeError as ex:
        if "positive definite" in str(ex) and "GaussianCov" in name and not has_nan and n >= nmin:
            return None
        return f"RuntimeError: {str(ex)[:100]}"
    except Exception as ex:
        return f"{type(ex).__name__}: {str(ex)[:100]}"
    if has_nan:
        return "data with missing values accepted"
    if n < nmin:
        return f"data shorter than the documented minimum {nmin} accepted"
    if kind == "cp":
        bad = problems_changepoints(out, n, kw["m"])
    elif kind == "mw":
        bad = problems_changepoints(out, n, None, kw["b"], n - kw["b"])
    else:
        bad = problems_anomalies(out, n, **kw)
    return "; ".join(bad[:2]) if bad else None


def make_data(p, seed=0):
    info = dict(part="data", p=p)

    def run(eng, acc):
        with proxy.native():
            for name, make, nmin, kind, kw in _detectors(p):
                for n in range(max(1, nmin - 2), nmin + 3):
                    for dname, X in _datasets(n, p, seed).items():
                        inf = dict(info, det=name, n=n, data=dname)
                        res0 = classify(name, make, nmin, kind, kw, pd.DataFrame(X), False)
                        acc.concrete("data.valid_runs_or_short_raises_ValueError", res0 is None, dict(inf, nan_at=None, outcome=res0))
                        acc.inc("translator_ok")      # native run of the real detector with its built-in scorer
                        if dname == "ramp":
                            for pos in range(n):
                                Xn = X.copy()
                                Xn[pos, p - 1] = np.nan
                                res = classify(name, make, nmin, kind, kw, pd.DataFrame(Xn), True)
                                acc.concrete("data.missing_values_raise_ValueError", res is None, dict(inf, nan_at=pos, outcome=res))
        acc.sample(dict(info, detectors=[d[0] for d in _detectors(p)][:6]))

    return Harness(run, [], name=f"data p={p}")


# ---------------------------------------------------------------------------------- jobs / replay

def _boundary_jobs(tier):
    out = []
    for j in c02.jobs(tier, mode="c04"):
        if j.cfg["n"] == 2 * j.cfg["m"] or j.cfg["m"] == 1:
            out.append(j)
    for j in c08.jobs(tier, mode="c04"):
        if j.cfg["n"] == 2 * j.cfg["b"] or j.cfg["b"] == 1 or j.cfg["mdi"] > 1:
            out.append(j)
    for j in c07.jobs(tier, mode="c04"):
        if j.maker == "make_sbs" and (j.cfg["n"] == 2 * j.cfg["m"] or j.cfg["M"] == 2 * j.cfg["m"] or (j.cfg["m"] == 1 and j.cfg["n"] <= 4)):
            out.append(j)
    for j in c09.jobs(tier, mode="c04"):
        if j.cfg["n"] == 2 * j.cfg["m"] or j.cfg["M"] == 2 * j.cfg["m"] or (j.cfg["m"] == 1 and j.cfg["n"] <= 4):
            out.append(j)
    for j in c03.jobs(tier, mode="c04"):
        if j.cfg["n"] == j.cfg["m"] or j.cfg["M"] == j.cfg["m"]:
            out.append(j)
    return out


def jobs(tier):
    Mod = "harness.c14"
    out = [Job(Mod, "make_ctor", dict(det=d)) for d in ("PELT", "MovingWindow", "SBS", "CBS", "CAPA", "MVCAPA", "StatThresholdAnomaliser")]
    for p in ((1, 2) if tier == "quick" else (1, 2, 3)):
        out.append(Job(Mod, "make_data", dict(p=p)))
    out += _boundary_jobs(tier)
    return out


_MAKERS = {"make_pelt": c02, "make_mw": c08, "make_sbs": c07, "make_cbs": c09, "make_capa": c03, "make_mvcapa": c03}


def replay(cx):
    label = cx.get("job", "")
    for maker, mod in _MAKERS.items():
        if label.startswith(maker + "("):
            rep = mod.replay(cx)
            rep["key"] = f"{maker}|{rep.get('key')}"
            return rep
    info = cx.get("info") or {}
    model = cx.get("model") or {}
    if info.get("part") == "constructor":
        det = info["det"]
        g = lambda k, d: Fraction(model.get(k, str(d)))
        from skchange.anomaly_detectors import CAPA, MVCAPA, CircularBinarySegmentation, StatThresholdAnomaliser
        from skchange.change_detectors import PELT, MovingWindow, SeededBinarySegmentation
        m, M, b, mdi = int(g("m", 2)), int(g("M", 10)), int(g("b", 3)), int(g("mdi", 1))
        s1, s2, gf, lo, hi = float(g("scale1", 1)), float(g("scale2", 1)), float(g("gf", 1.5)), float(g("lo", -1)), float(g("hi", 1))
        cfgs = {
            "PELT": (lambda: PELT(penalty_scale=s1, min_segment_length=m), s1 >= 0 and m >= 1, dict(penalty_scale=s1, min_segment_length=m)),
            "MovingWindow": (lambda: MovingWindow(bandwidth=b, threshold_scale=s1, min_detection_interval=mdi),
                             s1 >= 0 and b >= 1 and 1 <= mdi <= max(1, b / 2), dict(bandwidth=b, threshold_scale=s1, min_detection_interval=mdi)),
            "SBS": (lambda: SeededBinarySegmentation(threshold_scale=s1, min_segment_length=m, max_interval_length=M, growth_factor=gf),
                    s1 >= 0 and m >= 1 and M >= 2 * m and 1 < gf <= 2, dict(threshold_scale=s1, min_segment_length=m, max_interval_length=M, growth_factor=gf)),
            "CBS": (lambda: CircularBinarySegmentation(threshold_scale=s1, min_segment_length=m, max_interval_length=M, growth_factor=gf),
                    s1 >= 0 and m >= 1 and M >= 2 * m and 1 < gf <= 2, dict(threshold_scale=s1, min_segment_length=m, max_interval_length=M, growth_factor=gf)),
            "CAPA": (lambda: CAPA(collective_penalty_scale=s1, point_penalty_scale=s2, min_segment_length=m, max_segment_length=M),
                     s1 >= 0 and s2 >= 0 and m >= 2 and M >= m, dict(collective_penalty_scale=s1, point_penalty_scale=s2, min_segment_length=m, max_segment_length=M)),
            "MVCAPA": (lambda: MVCAPA(collective_penalty_scale=s1, point_penalty_scale=s2, min_segment_length=m, max_segment_length=M),
                       s1 >= 0 and s2 >= 0 and m >= 2 and M >= m, dict(collective_penalty_scale=s1, point_penalty_scale=s2, min_segment_length=m, max_segment_length=M)),
            "StatThresholdAnomaliser": (lambda: StatThresholdAnomaliser(MovingWindow(bandwidth=3), stat_lower=lo, stat_upper=hi), lo <= hi, dict(stat_lower=lo, stat_upper=hi)),
        }
        thunk, valid, kwargs = cfgs[det]
        with proxy.native():
            try:
                thunk()
                outcome = "constructed"
            except ValueError:
                outcome = "ValueError"
            except Exception as ex:
                outcome = f"{type(ex).__name__}"
        want = "constructed" if valid else "ValueError"
        return dict(reproduced=outcome != want, key=f"constructor|{det}|{outcome}", what=f"{det}({kwargs}) -> {outcome}; documented domain says {want}")
    if info.get("part") == "data":
        p, name, n, dname, nan_at = info["p"], info["det"], info["n"], info["data"], info.get("nan_at")
        with proxy.native():
            spec = next(d for d in _detectors(p) if d[0] == name)
            X = _datasets(n, p, 0)[dname].copy()
            if nan_at is not None:
                X[nan_at, p - 1] = np.nan
            res = classify(spec[0], spec[1], spec[2], spec[3], spec[4], pd.DataFrame(X), nan_at is not None)
        return dict(reproduced=res is not None, key=f"data|{name.split('(')[0]}|{'nan' if nan_at is not None else ('short' if n < spec[2] else 'valid')}",
                    what=f"{name} on {dname} data of shape ({n},{p}){' with NaN at row ' + str(nan_at) if nan_at is not None else ''}: {res}")
    return dict(reproduced=None, key=cx["ob"], what=str(info))
