"""C12 -- detections respect the model's symmetries: permutation, shift, scale, reversal."""
from __future__ import annotations

import itertools
import math
from fractions import Fraction

import numpy as np
import pandas as pd
import z3

from symnp import proxy
from symnp.core import Engine, SymInt, SymReal, log_term, rv
from symnp.drive import Acc, Harness, Job

from .common import PI2, col_terms, rss, sym_matrix, tsum
from .scorers import TableChangeScore, TableCost, TableLocalScore, TableSaving, values_from_model

PROPERTY = "C12"
FUNCTIONS = [
    "skchange.costs.l2_cost:l2_cost_optim",
    "skchange.costs.gaussian_var_cost:gaussian_var_cost_optim",
    "skchange.costs.gaussian_var_cost:var_from_sums",
    "skchange.costs.gaussian_cov_cost:gaussian_cov_cost_optim",
    "skchange.utils.numba.stats:log_det_covariance",
    "skchange.change_scores.cusum:cusum_score",
    "skchange.change_scores.from_cost:ChangeScore._evaluate",
    "skchange.anomaly_scores.from_cost:LocalAnomalyScore._evaluate",
    "skchange.anomaly_scores.l2_saving:l2_saving",
    "skchange.change_detectors.moving_window:moving_window_transform",
    "skchange.change_detectors.pelt:run_pelt",
    "skchange.change_detectors.seeded_binseg:run_seeded_binseg",
    "skchange.anomaly_detectors.circular_binseg:run_circular_binseg",
    "skchange.anomaly_detectors.mvcapa:run_base_capa",
    "skchange.anomaly_detectors.mvcapa:penalise_savings",
    "skchange.anomaly_detectors.mvcapa:find_affected_components",
]
BOUNDS = {
    "quick": "scorers on symbolic data: n=4, p=2 (multivariate cost p=2, n=4), every admissible cut; column swap, per-column "
             "symbolic shift, symbolic positive scale, time reversal; detectors with column-swapped table scorers p=2: "
             "PELT n=4, MovingWindow n=4, SBS n=4, CBS n=5, CAPA n=3, MVCAPA n=2; PELT reversed / length-shifted cost "
             "tables n<=4; MovingWindow(L2Cost / CUSUM) on shifted symbolic data n=5",
    "thorough": "scorers n<=5, p<=3 (all column permutations); detector product runs one size larger",
}
STUBS = ["np.log Ackermannised; np.sqrt defined algebraic; LAPACK contracts (C01)", "table scorers with a column permutation",
         "log(ab) = log a + log b instantiated per query for the scale invariance"]
ASSUMPTIONS = ["exact real arithmetic (the property's 'margin exceeds rounding' clause is vacuous)",
               "scale invariance: all segment variances (before and after scaling) >= 1e-3, i.e. away from the 1e-16 floor",
               "detector-level invariance under shift / scale follows from scorer-level invariance because detectors see the "
               "data only through the scorer (checked as obligation B0 in C02 and by construction of the table runs)"]
OUTSIDE = ["float behaviour near ties", "sizes beyond the bounds"]

WELL = z3.RealVal(Fraction(1, 1000))


def scorer_zoo(p):
    from skchange.anomaly_scores import L2Saving, LocalAnomalyScore, Saving
    from skchange.change_scores import CUSUM, ChangeScore
    from skchange.costs import GaussianCovCost, GaussianVarCost, L2Cost
    return {
        "L2Cost": (lambda: L2Cost(), 2, 1, True),
        "GaussianVarCost": (lambda: GaussianVarCost(), 2, 2, True),
        "GaussianCovCost": (lambda: GaussianCovCost(), 2, p + 1, False),
        "CUSUM": (lambda: CUSUM(), 3, 1, True),
        "ChangeScore(L2Cost)": (lambda: ChangeScore(L2Cost()), 3, 1, True),
        "ChangeScore(GaussianVarCost)": (lambda: ChangeScore(GaussianVarCost()), 3, 2, True),
        "LocalAnomalyScore(L2Cost)": (lambda: LocalAnomalyScore(L2Cost()), 4, 1, True),
        "L2Saving": (lambda: L2Saving(), 2, 1, True),
    }


def all_cuts(n, k, ms):
    if k == 2:
        return [(s, e) for s in range(n) for e in range(s + ms, n + 1)]
    if k == 3:
        return [(s, m, e) for s in range(n) for m in range(s + ms, n) for e in range(m + ms, n + 1)]
    return [(s, a, b, e) for s in range(n) for a in range(s + 1, n) for b in range(a + ms, n) for e in range(b + 1, n + 1) if (a - s) + (e - b) >= ms]


def mirror(cut, n):
    return tuple(n - c for c in reversed(cut))


def _eval(make, X, cut, exact_ints=False):
    if exact_ints:
        with proxy.settings(exact=True, object_ints=True):
            return make().fit(X).evaluate(np.array([[SymInt(z3.IntVal(c)) for c in cut]], dtype=object))
    with proxy.settings(exact=True):
        return make().fit(X).evaluate(np.array([list(cut)]))


def _eval_reused(make, X, cut, Xview, cutview, exact_ints=False):
    """One scorer instance: fit(X).evaluate(cut), then refitted on a *view* of the same buffer (reversed rows /
    reversed columns are views in NumPy) and evaluated there -- how a caller checks a symmetry in practice."""
    def ev(inst, data, c):
        if exact_ints:
            with proxy.settings(exact=True, object_ints=True):
                return inst.fit(data).evaluate(np.array([[SymInt(z3.IntVal(v)) for v in c]], dtype=object))
        with proxy.settings(exact=True):
            return inst.fit(data).evaluate(np.array([list(c)]))
    inst = make()
    ev(inst, X, cut)
    return ev(inst, Xview, cutview)


def _equal(eng, acc, name, a, b, info):
    ta, tb = rv(a), rv(b)
    if z3.simplify(ta - tb).eq(z3.RealVal(0)):
        acc.concrete(name, True)
    else:
        acc.oblige(eng, name, ta == tb, info)


def _cuts_for(scorer, n, p, cut_limit):
    make, k, ms, univariate = scorer_zoo(p)[scorer]
    cuts = all_cuts(n, k, ms)
    if cut_limit and len(cuts) > cut_limit:
        step = len(cuts) / cut_limit
        cuts = [cuts[int(i * step)] for i in range(cut_limit)]
    return cuts


def make_scorer(sym, scorer, n, p, cut_limit=None, only=None):
    """One harness per cut: the scorer on X and on the transformed X in the same path."""
    cuts = _cuts_for(scorer, n, p, cut_limit)
    if only is not None:
        cuts = [cuts[only]]
    hs = []
    for cut in cuts:
        hs.append(_scorer_harness(sym, scorer, n, p, cut))
    return hs


def _scorer_harness(sym, scorer, n, p, cut):
    make, k, ms, univariate = scorer_zoo(p)[scorer]
    X = sym_matrix(n, p)
    info = dict(sym=sym, scorer=scorer, n=n, p=p, cut=list(cut))
    base = []
    exact_ints = scorer == "CUSUM"
    gaussian = "Gaussian" in scorer
    segs = []
    if k == 2:
        segs = [(cut[0], cut[1])]
    elif k == 3:
        segs = [(cut[0], cut[1]), (cut[1], cut[2]), (cut[0], cut[2])]
    a = z3.Real("a")
    if sym == "scale":
        base.append(a > 0)
        if scorer == "GaussianVarCost" or scorer == "ChangeScore(GaussianVarCost)":
            for (s, e) in segs:
                for j in range(p):
                    v = rss(col_terms(X, s, e, j)) / (e - s)
                    base += [v >= WELL, a * a * v >= WELL]

    def run(eng, acc):
        try:
            ref = _eval(make, X, cut, exact_ints)
            ref_err = None
        except RuntimeError as ex:
            ref, ref_err = None, ex
        if sym == "perm":
            perms = [pi for pi in itertools.permutations(range(p)) if pi != tuple(range(p))]
            for pi in perms:
                Xp = X[:, list(pi)]
                try:
                    got = _eval(make, Xp, cut, exact_ints)
                except RuntimeError:
                    acc.concrete("perm.error_iff_error", ref_err is not None, dict(info, perm=pi), eng=eng)
                    continue
                if ref_err is not None:
                    acc.concrete("perm.error_iff_error", False, dict(info, perm=pi), eng=eng)
                    continue
                if univariate:
                    for j in range(p):
                        _equal(eng, acc, "perm.columns_permuted", got[0, j], ref[0, pi[j]], dict(info, perm=pi, col=j))
                else:
                    _equal(eng, acc, "perm.multivariate_value_unchanged", got[0, 0], ref[0, 0], dict(info, perm=pi))
                if pi == tuple(reversed(range(p))):
                    # the same scorer object refitted on the column-reversed *view* of the data it was fitted on
                    try:
                        got2 = _eval_reused(make, X, cut, X[:, ::-1], cut, exact_ints)
                        for j in range(got2.shape[1]):
                            _equal(eng, acc, "perm.same_object_refitted_on_view", got2[0, j], got[0, j], dict(info, perm=pi, col=j, reuse="view"))
                    except RuntimeError:
                        pass
        elif sym == "shift":
            cs = [z3.Real(f"shift_{j}") for j in range(p)]
            Xs = X + np.array([SymReal(c) for c in cs], dtype=object)
            try:
                got = _eval(make, Xs, cut, exact_ints)
            except RuntimeError:
                acc.concrete("shift.error_iff_error", ref_err is not None, info, eng=eng)
                return
            if ref_err is not None:
                acc.concrete("shift.error_iff_error", False, info, eng=eng)
                return
            for j in range(got.shape[1]):
                _equal(eng, acc, "shift.value_unchanged", got[0, j], ref[0, j], dict(info, col=j))
        elif sym == "scale":
            Xa = X * SymReal(a)
            got = _eval(make, Xa, cut, exact_ints)
            la2 = log_term(a * a)
            for (s, e) in segs:
                for j in range(p):
                    v = rss(col_terms(X, s, e, j)) / (e - s)
                    eng.assume(log_term(PI2 * (a * a * v)) == la2 + log_term(PI2 * v), conservative=True)   # log(ab) = log a + log b
                    acc.inc("lemma_instances")
            for j in range(got.shape[1]):
                if scorer == "GaussianVarCost":
                    want = rv(ref[0, j]) + (cut[1] - cut[0]) * la2
                    acc.oblige(eng, "scale.gaussian_cost_shifts_by_length_times_log_a2", rv(got[0, j]) == want, dict(info, col=j))
                else:
                    acc.oblige(eng, "scale.gaussian_change_score_unchanged", rv(got[0, j]) == rv(ref[0, j]), dict(info, col=j))
        elif sym == "reverse":
            Xr = X[::-1].copy()
            try:
                got = _eval(make, Xr, mirror(cut, n), exact_ints)
            except RuntimeError:
                acc.concrete("reverse.error_iff_error", ref_err is not None, info, eng=eng)
                return
            if ref_err is not None:
                acc.concrete("reverse.error_iff_error", False, info, eng=eng)
                return
            for j in range(got.shape[1]):
                _equal(eng, acc, "reverse.value_of_mirrored_cut", got[0, j], ref[0, j], dict(info, col=j, mirrored=list(mirror(cut, n))))
            try:
                got2 = _eval_reused(make, X, cut, X[::-1], mirror(cut, n), exact_ints)
                for j in range(got2.shape[1]):
                    _equal(eng, acc, "reverse.same_object_refitted_on_view", got2[0, j], ref[0, j], dict(info, col=j, reuse="view", mirrored=list(mirror(cut, n))))
            except RuntimeError:
                pass
        acc.sample(dict(info, value=str(z3.simplify(rv(ref[0, 0])))[:120] if ref is not None else "RuntimeError"))
        if ref is not None and acc.total("witness_tried") < 30:
            # float witness of the untransformed run: symbolic term at a model of the path vs the native scorer
            from symnp.witness import FloatEval, close, robust_model
            from .common import model_env, model_matrix
            acc.inc("witness_tried")
            model, _ = robust_model(eng)
            if model is not None:
                env = model_env(model)
                Xf = model_matrix(model, n, p)
                for i in range(n):
                    for j in range(p):
                        env[f"x_{i}_{j}"] = Xf[i, j]
                fe = FloatEval(env, eng)
                try:
                    with proxy.native():
                        nat = make().fit(Xf).evaluate(np.array([list(cut)]))
                    if all(close(float(nat[0, j]), float(fe(rv(ref[0, j]))), 1e-6, 1e-6) for j in range(nat.shape[1])):
                        acc.inc("witness_ok")
                    else:
                        acc.error(f"C12 witness mismatch {scorer} cut {cut}: native {nat.tolist()}")
                except RuntimeError:
                    pass

    return Harness(run, base, sliced=True, timeout_ms=15000 if n <= 4 else 45000, name=f"{sym} {scorer} {cut}")


# ---------------------------------------------------------------------------------- detectors

class _PermMixin:
    """Table scorer whose columns are swapped: column j of the output is table column perm[j]."""

    def _table_eval(self, cuts, tag):
        out = super()._table_eval(cuts, tag)
        return out[:, list(self.perm)]


def _perm_class(base):
    return type("Perm" + base.__name__, (_PermMixin, base), {})


def make_det_perm(det, n, p=2):
    pi = tuple(reversed(range(p)))
    X = pd.DataFrame(np.zeros((n, p)))
    info = dict(sym="perm", det=det, n=n, p=p)
    base = [z3.Real("scale") >= 0]
    if det == "PELT":
        from .c02 import split_inequalities
        base += split_inequalities(n, 1, p)
    if det in ("CAPA", "MVCAPA", "MVCAPA-rank-penalties"):
        from .c03 import table_assumptions
        base += table_assumptions(n, p, 2, n)
    if det == "MVCAPA-rank-penalties":
        gap = z3.RealVal(Fraction(1e-8))
        base += [z3.Real("palpha") >= 0] + [z3.Real(f"pbeta_{k}") >= gap for k in range(p)] + [z3.Real("pbeta_0") != z3.Real(f"pbeta_{p - 1}")]

    def build(perm):
        from skchange.anomaly_detectors import CAPA, MVCAPA, CircularBinarySegmentation
        from skchange.change_detectors import PELT, MovingWindow, SeededBinarySegmentation
        s = SymReal(z3.Real("scale"))

        def mk(cls, **kw):
            obj = (_perm_class(cls) if perm else cls)(p=p, **kw)
            if perm:
                obj.perm = pi
            return obj
        if det == "PELT":
            return PELT(mk(TableCost), penalty_scale=s, min_segment_length=1)
        if det == "MovingWindow":
            return MovingWindow(mk(TableChangeScore), bandwidth=1, threshold_scale=s)
        if det == "SBS":
            return SeededBinarySegmentation(mk(TableChangeScore), threshold_scale=s, min_segment_length=1, growth_factor=2.0)
        if det == "CBS":
            return CircularBinarySegmentation(mk(TableLocalScore), threshold_scale=s, min_segment_length=1, growth_factor=2.0)
        if det == "CAPA":
            return CAPA(mk(TableSaving), mk(TableSaving, tag="P"), collective_penalty_scale=s, point_penalty_scale=s, min_segment_length=2)
        if det == "MVCAPA-rank-penalties":
            # per-component point penalties that differ by rank (user callable): the affected columns must
            # still follow the column permutation
            pb = [z3.Real(f"pbeta_{k}") for k in range(p)]
            f = lambda n_, p_, k_=1, scale=1.0: (SymReal(z3.Real("palpha")), np.array([SymReal(b) for b in pb], dtype=object))
            return MVCAPA(mk(TableSaving), mk(TableSaving, tag="P"), collective_penalty="sparse", collective_penalty_scale=s,
                          point_penalty=f, min_segment_length=2)
        return MVCAPA(mk(TableSaving), mk(TableSaving, tag="P"), collective_penalty="sparse", collective_penalty_scale=s,
                      point_penalty="sparse", point_penalty_scale=s, min_segment_length=2)

    def run(eng, acc):
        a = build(False).fit(X).predict(X)
        b = build(True).fit(X).predict(X)
        if "ilocs" in a and len(a) and isinstance(a["ilocs"].iloc[0], pd.Interval):
            ia = [(int(i.left), int(i.right)) for i in a["ilocs"]]
            ib = [(int(i.left), int(i.right)) for i in b["ilocs"]]
        else:
            ia, ib = [int(v) for v in a["ilocs"]], [int(v) for v in b["ilocs"]]
        acc.concrete("perm.detections_unchanged", ia == ib, dict(info, original=ia, permuted=ib), eng=eng)
        if det.startswith("MVCAPA") and ia == ib:
            ca = [sorted(int(c) for c in v) for v in a["icolumns"]]
            cb = [sorted(pi[int(c)] for c in v) for v in b["icolumns"]]
            if ca == cb:
                acc.concrete("perm.affected_columns_permuted_accordingly", True)
            else:
                # only a violation if it can also happen without ties between the column savings
                # of a reported anomaly or between a saving and its penalty (property: ties excluded)
                distinct = []
                for (s0, e0) in ia:
                    tag = "P" if e0 - s0 == 1 else "S"
                    vs = [z3.Real(f"{tag}_{s0}_{e0}_{j}") for j in range(p)]
                    distinct += [vs[i] != vs[j] for i in range(p) for j in range(i + 1, p)]
                    beta = 2 * z3.Real("scale") * z3.RealVal(Fraction(math.log(p)))
                    distinct += [v != beta for v in vs]
                    if det == "MVCAPA-rank-penalties" and tag == "P":
                        # ties between the candidate subsets' penalised savings
                        pbs = [z3.Real(f"pbeta_{k}") for k in range(p)]
                        srt = [(vs[0], vs[1]), (vs[1], vs[0])] if p == 2 else []
                        for hi_, lo_ in srt:
                            distinct.append(lo_ != pbs[1])
                acc.oblige(eng, "perm.affected_columns_permuted_accordingly", z3.Not(z3.And(distinct)),
                           dict(info, original=ca, permuted_mapped_back=cb))
        acc.add_to("outputs", str(ia))
        acc.sample(dict(info, detections=ia))

    return Harness(run, base, name=f"det perm {info}")


class ReverseCost(TableCost):
    def _evaluate(self, cuts):
        cuts = np.asarray(cuts)
        return super()._evaluate(np.column_stack((self.n_ - cuts[:, 1], self.n_ - cuts[:, 0])))


class LengthShiftCost(TableCost):
    """C'(s,e) = C(s,e) + (e-s) * delta: what a Gaussian cost does when the data are scaled."""

    def _evaluate(self, cuts):
        cuts = np.asarray(cuts)
        out = super()._evaluate(cuts)
        d = SymReal(z3.Real("delta"))
        for i, (s, e) in enumerate(cuts):
            out[i, 0] = out[i, 0] + int(e - s) * d
        return out


def make_pelt_pair(kind, n):
    from .c02 import split_inequalities
    X = pd.DataFrame(np.zeros((n, 1)))
    base = [z3.Real("scale") >= 0] + split_inequalities(n, 1, 1)
    info = dict(sym=kind, det="PELT", n=n)

    def run(eng, acc):
        from skchange.change_detectors import PELT
        s = SymReal(z3.Real("scale"))
        d1 = PELT(TableCost(p=1), penalty_scale=s, min_segment_length=1).fit(X)
        c1 = [int(v) for v in d1.predict(X)["ilocs"]]
        sc1 = [rv(v) for v in d1.scores.values]
        cls = ReverseCost if kind == "reverse" else LengthShiftCost
        d2 = PELT(cls(p=1), penalty_scale=s, min_segment_length=1).fit(X)
        c2 = [int(v) for v in d2.predict(X)["ilocs"]]
        sc2 = [rv(v) for v in d2.scores.values]
        if kind == "reverse":
            acc.oblige(eng, "reverse.pelt_optimal_cost_unchanged", sc1[-1] == sc2[-1], dict(info, cpts=c1, cpts_reversed=c2))
        else:
            delta = z3.Real("delta")
            acc.oblige(eng, "scale.pelt_scores_shift_by_length_times_delta", z3.And([sc2[t] == sc1[t] + (t + 1) * delta for t in range(n)]),
                       dict(info, cpts=c1, cpts_shifted=c2))
            # same changepoints unless the optimum is tied (any minimiser is acceptable then)
            if c1 != c2:
                from .c02 import seg_cost
                pen = rv(d1.penalty_)
                acc.oblige(eng, "scale.pelt_changepoints_equally_optimal", seg_cost(c2, n, pen, 1) == seg_cost(c1, n, pen, 1), dict(info, cpts=c1, cpts_shifted=c2))
            else:
                acc.concrete("scale.pelt_changepoints_equally_optimal", True)
        acc.sample(dict(info, cpts=c1, other=c2))

    return Harness(run, base, name=f"pelt {kind} {n}")


def make_mw_shift(scorer, n, b, p):
    X = sym_matrix(n, p)
    info = dict(sym="shift", det="MovingWindow", scorer=scorer, n=n, b=b, p=p)

    def run(eng, acc):
        from skchange.change_detectors import MovingWindow
        from skchange.change_scores import CUSUM
        from skchange.costs import L2Cost
        mk = (lambda: L2Cost()) if scorer == "L2Cost" else (lambda: CUSUM())
        cs = np.array([SymReal(z3.Real(f"shift_{j}")) for j in range(p)], dtype=object)
        with proxy.settings(exact=(scorer == "CUSUM")):
            a = MovingWindow(mk(), bandwidth=b).fit(pd.DataFrame(X)).transform_scores(pd.DataFrame(X)).values
            c = MovingWindow(mk(), bandwidth=b).fit(pd.DataFrame(X + cs)).transform_scores(pd.DataFrame(X + cs)).values
        for t in range(n):
            if scorer == "CUSUM":
                # CUSUM weights are algebraic numbers; compare through the squares of each column term is not
                # available after aggregation, so compare the aggregated scores directly
                _equal(eng, acc, "shift.moving_window_scores_unchanged", c[t], a[t], dict(info, t=t))
            else:
                _equal(eng, acc, "shift.moving_window_scores_unchanged", c[t], a[t], dict(info, t=t))
        acc.sample(dict(info, score_b=str(z3.simplify(rv(a[b])))[:120]))

    return Harness(run, [], sliced=True, timeout_ms=15000, name=f"mw shift {info}")


def jobs(tier):
    M = "harness.c12"
    out = []
    if tier == "quick":
        n, p, lim = 4, 2, 10
        dets = [("PELT", 4), ("MovingWindow", 4), ("SBS", 4), ("CBS", 5), ("CAPA", 3), ("MVCAPA", 2), ("MVCAPA-rank-penalties", 2)]
        pel = [("reverse", 3), ("reverse", 4), ("scale", 3), ("scale", 4)]
        mws = [("L2Cost", 5, 1, 2), ("L2Cost", 5, 2, 1), ("CUSUM", 4, 1, 1)]
    else:
        n, p, lim = 5, 2, None
        dets = [("PELT", 4), ("PELT", 5), ("MovingWindow", 5), ("SBS", 4), ("CBS", 5), ("CAPA", 3), ("CAPA", 4), ("MVCAPA", 2), ("MVCAPA", 3), ("MVCAPA-rank-penalties", 2)]
        pel = [("reverse", k) for k in (3, 4, 5)] + [("scale", k) for k in (3, 4, 5)]
        mws = [("L2Cost", 6, 1, 2), ("L2Cost", 6, 2, 2), ("L2Cost", 7, 3, 1), ("CUSUM", 5, 1, 1), ("CUSUM", 5, 2, 1)]
    zoo = list(scorer_zoo(p))

    def add(sym, scorer, nn, pp, limit):
        if "Gaussian" in scorer:     # heavy (variance-floor / definiteness branches): one job per cut
            for i in range(len(_cuts_for(scorer, nn, pp, limit))):
                out.append(Job(M, "make_scorer", dict(sym=sym, scorer=scorer, n=nn, p=pp, cut_limit=limit, only=i)))
        else:
            out.append(Job(M, "make_scorer", dict(sym=sym, scorer=scorer, n=nn, p=pp, cut_limit=limit)))

    for scorer in zoo:
        pp, ll = p, lim
        if scorer == "ChangeScore(GaussianVarCost)":
            pp, ll = 1, (6 if tier == "quick" else 12)   # p=2 multiplies the floor branches of two runs x three segments
        if scorer == "ChangeScore(GaussianVarCost)":
            add("perm", scorer, 4, 2, 3 if tier == "quick" else 6)     # column permutation needs p=2: kept at n=4
        else:
            add("perm", scorer, n, p, lim)
        if scorer == "GaussianCovCost" and n > 4:
            add("reverse", scorer, 4, pp, ll)      # n=5, p=2, cut [0,5): degree-4 identity in 10 variables, not decided in 45 s
            add("shift", scorer, 4, pp, ll)
            continue
        add("reverse", scorer, n, pp, ll)
        if scorer not in ("L2Saving",):
            add("shift", scorer, n, pp, ll)
    for scorer in ("GaussianVarCost", "ChangeScore(GaussianVarCost)"):
        out.append(Job(M, "make_scorer", dict(sym="scale", scorer=scorer, n=n, p=1, cut_limit=lim)))
    if tier == "thorough":
        for scorer in ("L2Cost", "GaussianCovCost", "CUSUM"):
            out.append(Job(M, "make_scorer", dict(sym="perm", scorer=scorer, n=4, p=3, cut_limit=8)))
    for (det, nn) in dets:
        out.append(Job(M, "make_det_perm", dict(det=det, n=nn, p=2), split=True))
    for (kind, nn) in pel:
        out.append(Job(M, "make_pelt_pair", dict(kind=kind, n=nn), split=nn >= 4))
    for (sc, nn, b, pp) in mws:
        out.append(Job(M, "make_mw_shift", dict(scorer=sc, n=nn, b=b, p=pp)))
    return out


def replay(cx):
    info = cx.get("info") or {}
    model = cx.get("model") or {}
    ob = cx["ob"]
    sym = info.get("sym")
    f = lambda k, d=0.0: float(Fraction(model.get(k, str(d))))
    key = f"{ob}|{info.get('scorer') or info.get('det')}"
    if "scorer" in info and "det" not in info:
        n, p, cut, scorer = info["n"], info["p"], tuple(info["cut"]), info["scorer"]
        make = scorer_zoo(p)[scorer][0]
        Xf = np.array([[f(f"x_{i}_{j}", (i * 3 + j * 5) % 7 - 2.5) for j in range(p)] for i in range(n)])
        with proxy.native():
            ev = lambda X, c: np.asarray(make().fit(X).evaluate(np.array([list(c)]))[0], dtype=float)
            try:
                ref = ev(Xf, cut)
                if info.get("reuse") == "view":
                    inst = make()
                    inst.fit(Xf).evaluate(np.array([list(cut)]))
                    if sym == "perm":
                        got = np.asarray(inst.fit(Xf[:, ::-1]).evaluate(np.array([list(cut)]))[0], dtype=float)
                        want = ev(Xf[:, ::-1].copy(), cut)
                    else:
                        got = np.asarray(inst.fit(Xf[::-1]).evaluate(np.array([list(mirror(cut, n))]))[0], dtype=float)
                        want = ref
                    sym = sym + " (same object refitted on a view of the data it holds)"
                elif sym == "perm":
                    pi = tuple(info.get("perm") or reversed(range(p)))
                    got = ev(Xf[:, list(pi)], cut)
                    want = ref[list(pi)] if len(ref) == p and scorer != "GaussianCovCost" else ref
                elif sym == "shift":
                    sh = np.array([f(f"shift_{j}", 3.5 + j) for j in range(p)])
                    got, want = ev(Xf + sh, cut), ref
                elif sym == "scale":
                    a = f("a", 3.0)
                    got = ev(Xf * a, cut)
                    want = ref + ((cut[1] - cut[0]) * math.log(a * a) if scorer == "GaussianVarCost" else 0.0)
                else:
                    got, want = ev(Xf[::-1].copy(), mirror(cut, n)), ref
                bad = not np.allclose(got, want, rtol=1e-6, atol=1e-7)
            except RuntimeError as ex:
                return dict(reproduced=None, key=key, what=f"RuntimeError in replay: {ex}")
        return dict(reproduced=bool(bad), key=key, what=f"{scorer} cut {cut}: on the {sym}-transformed data {got.tolist()}, expected {np.asarray(want).tolist()} [X={Xf.tolist()}]")
    if info.get("det") == "MovingWindow" and sym == "shift":
        from skchange.change_detectors import MovingWindow
        from skchange.change_scores import CUSUM
        from skchange.costs import L2Cost
        n, p, b = info["n"], info["p"], info["b"]
        Xf = np.array([[f(f"x_{i}_{j}", (i * 3 + j * 5) % 7 - 2.5) for j in range(p)] for i in range(n)])
        sh = np.array([f(f"shift_{j}", 3.5 + j) for j in range(p)])
        mk = (lambda: L2Cost()) if info["scorer"] == "L2Cost" else (lambda: CUSUM())
        with proxy.native():
            a = MovingWindow(mk(), bandwidth=b).fit(Xf).transform_scores(Xf).values
            c = MovingWindow(mk(), bandwidth=b).fit(Xf + sh).transform_scores(Xf + sh).values
        return dict(reproduced=not np.allclose(a, c, rtol=1e-6, atol=1e-7), key=key, what=f"MovingWindow scores {a.tolist()} vs on shifted data {c.tolist()}")
    # detector product runs on tables
    det, n = info.get("det"), info.get("n")
    p = info.get("p", 1)
    env = {k: float(Fraction(v)) for k, v in model.items() if _isnum(v)}
    X = pd.DataFrame(np.zeros((n, p)))
    from skchange.anomaly_detectors import CAPA, MVCAPA, CircularBinarySegmentation
    from skchange.change_detectors import PELT, MovingWindow, SeededBinarySegmentation
    s = env.get("scale", 0.0)
    bad = []
    with proxy.native():
        if sym == "perm":
            pi = tuple(reversed(range(p)))

            def mk(cls, perm, **kw):
                vals = {k: v for k, v in env.items() if k.startswith(kw.get("tag", {"TableCost": "c", "TableChangeScore": "T", "TableLocalScore": "A", "TableSaving": "S"}[cls.__name__]))}
                obj = (_perm_class(cls) if perm else cls)(p=p, values=vals, **kw)
                if perm:
                    obj.perm = pi
                return obj

            def build(perm):
                if det == "PELT":
                    return PELT(mk(TableCost, perm), penalty_scale=s, min_segment_length=1)
                if det == "MovingWindow":
                    return MovingWindow(mk(TableChangeScore, perm), bandwidth=1, threshold_scale=s)
                if det == "SBS":
                    return SeededBinarySegmentation(mk(TableChangeScore, perm), threshold_scale=s, min_segment_length=1, growth_factor=2.0)
                if det == "CBS":
                    return CircularBinarySegmentation(mk(TableLocalScore, perm), threshold_scale=s, min_segment_length=1, growth_factor=2.0)
                if det == "CAPA":
                    return CAPA(mk(TableSaving, perm), mk(TableSaving, perm, tag="P"), collective_penalty_scale=s, point_penalty_scale=s, min_segment_length=2)
                if det == "MVCAPA-rank-penalties":
                    pbn = np.array([env.get(f"pbeta_{k}", 0.0) for k in range(p)])
                    fnum = lambda n_, p_, k_=1, scale=1.0: (env.get("palpha", 0.0), pbn)
                    return MVCAPA(mk(TableSaving, perm), mk(TableSaving, perm, tag="P"), collective_penalty="sparse", collective_penalty_scale=s,
                                  point_penalty=fnum, min_segment_length=2)
                return MVCAPA(mk(TableSaving, perm), mk(TableSaving, perm, tag="P"), collective_penalty="sparse", collective_penalty_scale=s,
                              point_penalty="sparse", point_penalty_scale=s, min_segment_length=2)
            a, b = build(False).fit(X).predict(X), build(True).fit(X).predict(X)
            ia, ib = [str(v) for v in a["ilocs"]], [str(v) for v in b["ilocs"]]
            if ia != ib:
                bad.append(f"detections {ia} become {ib} after swapping the columns of the scorer")
            elif det.startswith("MVCAPA"):
                ca = [sorted(int(c) for c in v) for v in a["icolumns"]]
                cb = [sorted(pi[int(c)] for c in v) for v in b["icolumns"]]
                if ca != cb:
                    bad.append(f"affected columns {ca} vs permuted run mapped back {cb}")
        else:
            vals = {k: v for k, v in env.items() if k.startswith("co_")}
            d1 = PELT(TableCost(p=1, values=vals), penalty_scale=s, min_segment_length=1).fit(X)
            c1 = list(d1.predict(X)["ilocs"])
            if sym == "reverse":
                d2 = PELT(ReverseCost(p=1, values=vals), penalty_scale=s, min_segment_length=1).fit(X)
                c2 = list(d2.predict(X)["ilocs"])
                if abs(float(d1.scores.values[-1]) - float(d2.scores.values[-1])) > 1e-9:
                    bad.append(f"optimal cost {d1.scores.values[-1]} vs {d2.scores.values[-1]} on the reversed table")
            else:
                bad.append("scale replay not implemented natively (symbolic delta)")
                return dict(reproduced=None, key=key, what=bad[0])
    return dict(reproduced=bool(bad), key=key, what=f"{det} n={n}: " + "; ".join(bad)[:500] + f" [env {env}]"[:300])


def _isnum(v):
    try:
        Fraction(v)
        return True
    except Exception:
        return False
