"""C04 -- detections are well-formed and respect the configured length limits.

The solver's part is the path enumeration: each detector runs on table scorers of
free real variables, so a path exists iff some data / scorer of that size produces
that output.  On every path the (concrete) output frame is checked.  The runs are
those of C02 / C03 / C07 / C08 / C09 / C17 in 'c04' mode (only the well-formedness
obligations are evaluated)."""
from __future__ import annotations

from symnp.drive import Job

from . import c02, c03, c07, c08, c09

PROPERTY = "C04"
FUNCTIONS = sorted(set(c02.FUNCTIONS + c03.FUNCTIONS + c07.FUNCTIONS + c08.FUNCTIONS + c09.FUNCTIONS + [
    "skchange.anomaly_detectors.anomalisers:StatThresholdAnomaliser._predict",
]))
BOUNDS = {
    "quick": "the detector runs of C02, C03, C07, C08, C09 and C17 at their quick bounds (n<=5..9 depending on the "
             "detector, p in {1,2}), every path",
    "thorough": "the runs of C02, C03, C08, C17 at their thorough bounds; seeded / circular binary segmentation at the quick bounds "
                "plus the m >= 2 part of their thorough grids",
}
STUBS = ["table scorers (free reals per cut and column)", "MVCAPA user penalty callables",
         "C17 part: stub change detector returning an arbitrary admissible changepoint list"]
ASSUMPTIONS = ["scorer outputs are arbitrary reals subject only to the assumptions of the respective detector property "
               "(split inequality / sub-additivity), so every output the detector can produce for the size is reached"]
OUTSIDE = ["n beyond the detector bounds", "p in {3,4} (only MVCAPA p=3 in the thorough tier)"]

_MAKERS = {"make_pelt": c02, "make_mw": c08, "make_sbs": c07, "make_cbs": c09, "make_capa": c03, "make_mvcapa": c03}


def jobs(tier):
    out = []
    out += c02.jobs(tier, mode="c04")
    out += [j for j in c08.jobs(tier, mode="c04")]
    # seeded / circular binary segmentation: the thorough grids of C07 / C09 contain single jobs of 10^5 paths whose
    # outputs repeat those of the smaller sizes; the well-formedness check uses their quick grids plus the m >= 2 part
    sbs = {j.label: j for j in c07.jobs("quick", mode="c04") if j.maker == "make_sbs"}
    cbs = {j.label: j for j in c09.jobs("quick", mode="c04")}
    if tier == "thorough":
        sbs.update({j.label: j for j in c07.jobs("thorough", mode="c04") if j.maker == "make_sbs" and j.cfg["m"] >= 2})
        cbs.update({j.label: j for j in c09.jobs("thorough", mode="c04") if j.cfg["m"] >= 2})
    out += list(sbs.values()) + list(cbs.values())
    out += c03.jobs(tier, mode="c04")
    try:
        from . import c17
        out += c17.jobs(tier, mode="c04")
    except ImportError:
        pass
    return out


def replay(cx):
    label = cx.get("job", "")
    for maker, mod in _MAKERS.items():
        if label.startswith(maker + "("):
            rep = mod.replay(cx)
            rep["key"] = f"{maker}|{rep.get('key')}"
            return rep
    from . import c17
    return c17.replay(cx)
