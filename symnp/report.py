"""symnp.report -- turn job results into replays, VIOLATION / KNOWN-FINDING lines,
evidence files and an exit code (DESIGN.md section 2.5 / 2.6)."""
from __future__ import annotations

import hashlib
import json
import os
import sys
import time
import traceback

from .drive import Acc, function_hashes, jsonable

VERIF = os.path.dirname(os.path.dirname(os.path.abspath(__file__)))
EXIT_OK, EXIT_VIOLATION, EXIT_HARNESS = 0, 1, 3
# VERIF_OUT (tools/try_seed_wt.sh only): evidence / replays of a trial run against a scratch
# worktree go elsewhere, so that parallel trials never touch /verif/evidence.
OUT = os.environ.get("VERIF_OUT") or VERIF


def load_known():
    p = os.path.join(VERIF, "known_findings.json")
    if not os.path.exists(p):
        return []
    with open(p) as f:
        return json.load(f).get("findings", [])


def finalize(mod, tier, seed, results, wall, extra_acc=None, t_start=None):
    """mod: harness module.  results: {label: Acc}.  Returns exit code."""
    pid = mod.PROPERTY
    total = Acc()
    per_job = {}
    for label, acc in results.items():
        total.merge(acc)
        per_job[label] = dict(paths=acc.c.get("paths", 0), obligations=acc.c.get("obligations", 0),
                              discharged=acc.c.get("discharged", 0),
                              inconclusive=acc.c.get("inconclusive", 0),
                              aborted_paths=acc.c.get("aborted_paths", 0),
                              solver_s=round(acc.c.get("solver_s", 0.0), 2),
                              cpu_s=acc.c.get("cpu_wall_s", 0.0))
    if extra_acc is not None:
        total.merge(extra_acc)

    # ---- counterexamples: replay against the unpatched code ---------------------
    known = [k for k in load_known() if k.get("property") == pid]
    violations, known_hits, unreproduced = [], [], []
    seen_keys = set()
    all_cex = []
    for label, acc in list(results.items()) + ([("<extra>", extra_acc)] if extra_acc else []):
        for cx in acc.cex:
            all_cex.append((label, cx))
    import signal

    def _alarm(signum, frame):
        raise TimeoutError("replay exceeded 60 s")

    signal.signal(signal.SIGALRM, _alarm)
    for label, cx in all_cex:
        try:
            signal.alarm(60)
            cx = dict(cx, job=label)
            try:
                rep = mod.replay(cx)
            finally:
                signal.alarm(0)
        except Exception:
            rep = dict(reproduced=None, what="replay crashed: " + traceback.format_exc(limit=6), key="replay-crash")
        key = rep.get("key") or cx["ob"]
        if rep.get("reproduced") is True:
            if key in seen_keys:
                continue
            seen_keys.add(key)
            hit = next((k for k in known if k.get("key") == key), None)
            if hit is not None:
                known_hits.append((key, rep.get("what", "")))
                continue
            rdir = os.path.join(OUT, "replays", pid)
            os.makedirs(rdir, exist_ok=True)
            blob = dict(property=pid, job=label, obligation=cx["ob"], key=key, info=cx.get("info"),
                        model=cx.get("model"), what=rep.get("what"),
                        replay_cmd=f"./check {pid} --replay <this file>")
            h = hashlib.sha256(json.dumps(jsonable(blob), sort_keys=True).encode()).hexdigest()[:12]
            path = os.path.join(rdir, f"{h}.json")
            with open(path, "w") as f:
                json.dump(jsonable(blob), f, indent=1)
            violations.append((key, path, rep.get("what", "")))
        else:
            unreproduced.append((label, cx["ob"], rep.get("what", "")))

    for key, what in known_hits:
        print(f"KNOWN-FINDING: property={pid} {key}: {what}")
    for key, path, what in violations:
        print(f"VIOLATION property={pid} replay={path}")
        print(f"  {key}: {what}")
    for label, ob, what in unreproduced[:10]:
        print(f"HARNESS-ERROR: counterexample of {ob} in {label} did not reproduce on the real code: {what}")
    for e in total.errors[:10]:
        print(f"HARNESS-ERROR: {e}")
    for inc in total.inconclusive[:10]:
        print(f"INCONCLUSIVE: {inc}")

    n_ob = total.c.get("obligations", 0)
    n_dis = total.c.get("discharged", 0)
    n_inc = total.c.get("inconclusive", 0)
    n_paths = total.c.get("paths", 0)
    coverage = dict(
        states=n_paths,
        transitions=total.c.get("decisions", 0),
        traces_validated_against_impl=total.c.get("witness_ok", 0) + total.c.get("translator_ok", 0),
        samples=jsonable(total.samples) or [{"note": "no path produced a sample"}],
        obligations=n_ob,
        discharged=n_dis,
        inconclusive=n_inc,
        aborted_paths=total.c.get("aborted_paths", 0),
        infeasible_paths=total.c.get("infeasible_paths", 0),
        solver_checks=total.c.get("checks", 0),
        solver_s=round(total.c.get("solver_s", 0.0), 2),
        obligations_by_kind={k: dict(n=v[0], discharged=v[1]) for k, v in sorted(total.by_ob.items())},
        counters={k: (round(v, 3) if isinstance(v, float) else v) for k, v in sorted(total.c.items())},
        distinct={k: len(v) for k, v in total.sets.items()},
        jobs=per_job,
        functions_encoded=function_hashes(getattr(mod, "FUNCTIONS", [])),
        bounds=getattr(mod, "BOUNDS", {}).get(tier, getattr(mod, "BOUNDS", {})),
        stubs=getattr(mod, "STUBS", []),
        outside_claim=getattr(mod, "OUTSIDE", []),
        exhaustive=False,
        technique="symbolic execution of the real skchange functions (symnp) + z3 "
                  "per-path validity queries; counterexamples replayed natively",
        solver_cross_check={k: v for k, v in sorted(total.c.items()) if k.startswith("xcheck")},
        known_findings_reported=[k for k, _ in known_hits],
        unreproduced_counterexamples=len(unreproduced),
    )
    ev = dict(property_id=pid, tier=tier, seed=seed, level="model_checking", coverage=coverage,
              assumptions=getattr(mod, "ASSUMPTIONS", []),
              wall_s=round(time.time() - t_start if t_start else wall, 2),
              violations=len(violations))
    os.makedirs(os.path.join(OUT, "evidence"), exist_ok=True)
    with open(os.path.join(OUT, "evidence", f"{pid}.json"), "w") as f:
        json.dump(jsonable(ev), f, indent=1)

    print(f"[{pid} {tier}] paths={n_paths} obligations={n_ob} discharged={n_dis} inconclusive={n_inc} "
          f"witnesses={coverage['traces_validated_against_impl']} violations={len(violations)} "
          f"known={len(known_hits)} solver_s={coverage['solver_s']} wall_s={ev['wall_s']}")
    if violations:
        return EXIT_VIOLATION
    if unreproduced or total.errors:
        return EXIT_HARNESS
    if n_paths == 0 and n_ob == 0:
        print("HARNESS-ERROR: nothing was explored")
        return EXIT_HARNESS
    return EXIT_OK
