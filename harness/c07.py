"""C07 -- seeded binary segmentation reports exactly the greedy above-threshold splits."""
from __future__ import annotations

from fractions import Fraction

import numpy as np
import pandas as pd
import z3

from symnp import proxy
from symnp.core import SymReal, rv
from symnp.drive import Acc, Harness, Job
from symnp.witness import FloatEval, close, robust_model

from .common import model_env, tsum
from .scorers import TableChangeScore, values_from_model
from .wellformed import check_changepoints, problems_changepoints

PROPERTY = "C07"
FUNCTIONS = [
    "skchange.change_detectors.seeded_binseg:make_seeded_intervals",
    "skchange.change_detectors.seeded_binseg:greedy_changepoint_selection",
    "skchange.change_detectors.seeded_binseg:run_seeded_binseg",
    "skchange.change_detectors.seeded_binseg:SeededBinarySegmentation.__init__",
    "skchange.change_detectors.seeded_binseg:SeededBinarySegmentation._fit",
    "skchange.change_detectors.seeded_binseg:SeededBinarySegmentation._get_threshold",
    "skchange.change_detectors.seeded_binseg:SeededBinarySegmentation._predict",
    "skchange.change_detectors.base:ChangeDetector._format_sparse_output",
]
BOUNDS = {
    "quick": "full detector runs: m=1: n<=5; m=2: n<=8; m=3: n<=9; max_interval_length in {2m, 2m+1, n, 200}; "
             "growth_factor in {1.5, 2}; p in {1,2}; interval grid (concrete) for n<=40; all scores and the "
             "threshold scale symbolic",
    "thorough": "m=1: n<=4 (growth factors 1.1, 1.5, 2), n=5 (1.5, 2), n=6 with M=3 or growth factor 2; m=2: n<=8; m=3: n<=10; p<=2; interval grid for n<=120",
}
STUBS = ["TableChangeScore: user-defined change score returning one free real per (start, split, end, column)"]
ASSUMPTIONS = ["threshold_scale >= 0", "greedy equivalence is decided on paths whose interval scores can be pairwise "
               "distinct (the property leaves the tie-break open); all other obligations need no such assumption",
               "(n, m, max_interval_length, growth_factor) are enumerated, not symbolic (they feed log/ceil/geomspace)"]
OUTSIDE = ["m=1 full runs beyond n=6", "growth factors off the grid", "float ties"]


def tvar(s, k, e, j):
    return z3.Real(f"T_{s}_{k}_{e}_{j}")


def dummy_X(n, p):
    return pd.DataFrame(np.zeros((n, p)))


def interval_problems(starts, ends, n, m, M):
    bad = []
    if len(starts) == 0 and n >= 2 * m:
        bad.append(f"no candidate interval although n={n} >= 2*min_segment_length={2 * m}")
    for s, e in zip(starts, ends):
        s, e = int(s), int(e)
        if s < 0 or e > n:
            bad.append(f"interval [{s},{e}) not inside [0,{n}]")
        if e - s < 2 * m or e - s > min(M, n):
            bad.append(f"interval [{s},{e}) has length {e - s} outside [{2 * m}, {min(M, n)}]")
    return bad


def reference_greedy(scores, maximizers, starts, ends, th):
    """Independent greedy selection over symbolic scores; comparisons go through
    SymBool.__bool__, i.e. they fork unless the path condition already decides them."""
    remaining = list(range(len(scores)))
    cpts = []
    while True:
        cand = [i for i in remaining if bool(SymReal(scores[i]) > SymReal(th))]
        if not cand:
            break
        best = cand[0]
        for i in cand[1:]:
            if bool(SymReal(scores[i]) > SymReal(scores[best])):
                best = i
        c = maximizers[best]
        cpts.append(c)
        remaining = [i for i in remaining if not (starts[i] <= c < ends[i])]
        if best in remaining:       # cannot happen for an admissible maximiser
            return None
    return sorted(cpts)


def make_sbs(n, m, M, gf, p=1, mode="c07", o5=False):
    ts = z3.Real("tscale")
    dts = z3.Real("dtscale")
    base = [ts >= 0, dts >= 0]
    X = dummy_X(n, p)
    info = dict(n=n, m=m, M=M, gf=gf, p=p)

    def run(eng, acc):
        from skchange.change_detectors import SeededBinarySegmentation as SBS
        from .prelude import prelude
        prelude("SBS", n, p, m, M)
        try:
            det = SBS(TableChangeScore(p=p), threshold_scale=SymReal(ts), min_segment_length=m,
                      max_interval_length=M, growth_factor=gf)
            det.fit(X)
            th = rv(det.threshold_)
            out = det.predict(X)
            cpts = [int(c) for c in out["ilocs"]]
            sc = det.scores
        except Exception as ex:
            acc.concrete("runs_to_completion", False, dict(info, exception=f"{type(ex).__name__}: {ex}"[:200]), eng=eng)
            return
        acc.concrete("runs_to_completion", True)
        acc.add_to("outputs", tuple(cpts))
        check_changepoints(acc, out, n, m, info, "SeededBinarySegmentation", eng=eng)
        starts = [int(v) for v in sc["start"]]
        ends = [int(v) for v in sc["end"]]
        maxi = [int(v) for v in sc["argmax_cpt"]]
        vals = [rv(v) for v in sc["score"]]
        bad = interval_problems(starts, ends, n, m, M)
        acc.concrete("O1.candidate_intervals", not bad, dict(info, problems=bad[:3]), eng=eng)
        if mode == "c04" or bad:
            return
        # O2: per-interval maximisation
        for i, (s, e) in enumerate(zip(starts, ends)):
            splits = list(range(s + m, e - m + 1))
            terms = {k: tsum([tvar(s, k, e, j) for j in range(p)]) for k in splits}
            acc.concrete("O2.argmax_admissible", maxi[i] in terms, dict(info, interval=(s, e), argmax=maxi[i]), eng=eng)
            if maxi[i] not in terms:
                return
            acc.oblige(eng, "O2.score_is_max", z3.And([vals[i] >= t for t in terms.values()]), dict(info, interval=(s, e)))
            acc.oblige(eng, "O2.score_at_argmax", vals[i] == terms[maxi[i]], dict(info, interval=(s, e), argmax=maxi[i]))
        # O4: support and coverage
        exceeds = []
        for v in vals:
            ok, _ = eng.valid(v > th)
            if ok is True:
                exceeds.append(True)
            else:
                ok2, _ = eng.valid(z3.Not(v > th))
                exceeds.append(False if ok2 is True else None)
        for c in cpts:
            sup = [i for i in range(len(vals)) if maxi[i] == c and exceeds[i] is True]
            acc.concrete("O4.changepoint_supported", bool(sup), dict(info, cpt=c, cpts=cpts), eng=eng)
        for i in range(len(vals)):
            if exceeds[i] is True:
                acc.concrete("O4.no_uncovered_interval", any(starts[i] <= c < ends[i] for c in cpts),
                             dict(info, interval=(starts[i], ends[i]), cpts=cpts), eng=eng)
            elif exceeds[i] is None and not any(starts[i] <= c < ends[i] for c in cpts):
                acc.oblige(eng, "O4.no_uncovered_interval", z3.Not(vals[i] > th), dict(info, interval=(starts[i], ends[i]), cpts=cpts))
        _witness(eng, acc, n, m, M, gf, p, cpts, vals)
        acc.sample(dict(info, cpts=cpts, intervals=list(zip(starts, ends)), argmax=maxi,
                        path_condition=[str(c).replace("\n", " ")[:140] for c in eng.pc[: eng.synced][:6]]))
        # O5: raising the threshold only removes changepoints (product run, same path)
        if o5:
          det2 = SBS(TableChangeScore(p=p), threshold_scale=SymReal(ts + dts), min_segment_length=m,
                   max_interval_length=M, growth_factor=gf)
          cpts2 = [int(c) for c in det2.fit(X).predict(X)["ilocs"]]
          acc.concrete("O5.threshold_monotone", set(cpts2) <= set(cpts), dict(info, cpts=cpts, cpts_higher=cpts2), eng=eng)
        # O3: equality with the reference greedy on tie-free paths
        distinct = [vals[i] != vals[j] for i in range(len(vals)) for j in range(i + 1, len(vals))]
        if distinct:
            eng.assume(z3.And(distinct))        # Infeasible => tie-only path, ends here
        ref = reference_greedy(vals, maxi, starts, ends, th)
        acc.concrete("O3.equals_reference_greedy", ref == cpts, dict(info, cpts=cpts, reference=ref), eng=eng)

    return Harness(run, base, name=f"sbs {info}")


def _native(n, m, M, gf, p, values, tscale):
    from skchange.change_detectors import SeededBinarySegmentation as SBS
    from .prelude import prelude
    prelude("SBS", n, p, m, M)
    with proxy.native():
        det = SBS(TableChangeScore(p=p, values=values), threshold_scale=float(tscale), min_segment_length=m,
                  max_interval_length=M, growth_factor=gf)
        X = dummy_X(n, p)
        det.fit(X)
        out = det.predict(X)
        return out, det.scores.copy(), float(det.threshold_)


def _witness(eng, acc, n, m, M, gf, p, cpts, vals, cap=40):
    if acc.total("witness_tried") >= cap:
        return
    acc.inc("witness_tried")
    model, _ = robust_model(eng)
    if model is None:
        acc.inc("witness_tie_only_path")
        return
    env = model_env(model)
    values = {k: v for k, v in env.items() if k.startswith("T_")}
    try:
        out, sc, _ = _native(n, m, M, gf, p, values, env.get("tscale", 0.0))
    except Exception as ex:
        acc.error(f"C07 witness: native run raised {type(ex).__name__}: {ex}")
        return
    fe = FloatEval(env, eng)
    ok = [int(c) for c in out["ilocs"]] == cpts and all(close(float(a), fe(b), 1e-7, 1e-7) for a, b in zip(sc["score"], vals))
    if ok:
        acc.inc("witness_ok")
    else:
        acc.error(f"C07 witness mismatch {dict(n=n, m=m, M=M, gf=gf)}: symbolic {cpts} native {list(out['ilocs'])} values {values}")


def make_grid(nmax, ms, gfs):
    """O1 on the concrete grid (make_seeded_intervals has no symbolic content)."""
    def run(eng, acc):
        try:
            from skchange.change_detectors.seeded_binseg import make_seeded_intervals
        except ImportError:
            acc.concrete("O1.grid_skipped_anchor_not_found", True)     # the detector runs still check O1 on their own grids
            return
        for m in ms:
            for n in range(2 * m, nmax + 1):
                for M in sorted({2 * m, 2 * m + 1, 3 * m, n, n + 3, 200}):
                    if M < 2 * m:
                        continue
                    for gf in gfs:
                        info = dict(n=n, m=m, M=M, gf=gf, unit="make_seeded_intervals")
                        try:
                            with proxy.native():
                                starts, ends = make_seeded_intervals(n, 2 * m, M, gf)
                            bad = interval_problems(starts, ends, n, m, M)
                        except Exception as ex:
                            bad = [f"{type(ex).__name__}: {ex}"]
                        acc.concrete("O1.candidate_intervals_grid", not bad, dict(info, problems=bad[:2]))
        acc.sample(dict(unit="make_seeded_intervals", nmax=nmax, ms=ms, gfs=gfs))

    return Harness(run, [], name="sbs grid")


def jobs(tier, mode="c07"):
    Mod = "harness.c07"
    out = []
    if tier == "quick":
        cfgs = []
        for n in (2, 3, 4):
            for M in sorted({2, 3, n, 200}):
                cfgs.append((n, 1, M, 1.5, 1))
        cfgs += [(4, 1, 4, 2.0, 1), (4, 1, 200, 1.5, 2), (5, 1, 2, 1.5, 1), (5, 1, 3, 1.5, 1), (5, 1, 200, 2.0, 1)]
        for n in (4, 5, 6, 7):
            for M in sorted({4, 5, n, 200}):
                cfgs.append((n, 2, M, 1.5, 1))
        cfgs += [(8, 2, 4, 1.5, 1), (8, 2, 5, 1.5, 1), (8, 2, 200, 1.5, 1)]
        cfgs += [(7, 2, 200, 2.0, 1), (6, 2, 200, 1.5, 2), (6, 3, 6, 1.5, 1), (8, 3, 200, 1.5, 1), (9, 3, 7, 2.0, 1)]
        # smallest m=2 shape whose last interval of a length layer is clipped at n, i.e. shorter than its predecessor
        cfgs += [(8, 2, 7, 1.5, 1)]
        gridargs = dict(nmax=40, ms=[1, 2, 3, 5], gfs=[1.5, 2.0])
    else:
        cfgs = []
        for n in range(2, 5):
            for M in sorted({2, 3, n, 200}):
                for gf in (1.1, 1.5, 2.0):
                    cfgs.append((n, 1, M, gf, 1))
        # n=5, m=1: M=5 with gf=1.5 has 140 448 paths (measured); gf=1.1 generates even more intervals -- left out
        cfgs += [(5, 1, 2, 1.5, 1), (5, 1, 3, 1.5, 1), (5, 1, 200, 2.0, 1), (5, 1, 5, 1.5, 1)]
        cfgs += [(4, 1, 200, 1.5, 2), (6, 1, 3, 1.5, 1), (6, 1, 200, 2.0, 1)]
        for m in (2, 3):
            for n in range(2 * m, 9 if m == 2 else 11):
                for M in sorted({2 * m, 2 * m + 1, n, 200}):
                    for gf in (1.5, 2.0):
                        cfgs.append((n, m, M, gf, 1))
        cfgs += [(8, 2, 200, 1.5, 2), (9, 2, 200, 2.0, 1)]
        # shapes whose last interval of a length layer is clipped at n (shorter than its predecessor)
        cfgs += [(6, 1, 5, 2.0, 1), (8, 2, 7, 1.5, 1), (9, 2, 8, 1.5, 1), (10, 2, 9, 2.0, 1), (11, 3, 10, 1.5, 1)]
        gridargs = dict(nmax=120, ms=[1, 2, 3, 5, 8], gfs=[1.1, 1.5, 2.0])
    seen = set()
    for (n, m, M, gf, p) in cfgs:
        big = (n - 2 * m >= 2 and min(M, n) - 2 * m >= 2)
        key = (n, m, min(M, n), gf, p)
        if big and key in seen:
            continue          # identical candidate intervals (max_interval_length is clipped to n)
        seen.add(key)
        o5 = mode == "c07" and (n - 2 * m <= 2)
        out.append(Job(Mod, "make_sbs", dict(n=n, m=m, M=M, gf=gf, p=p, mode=mode, o5=o5), split=big))
    out.append(Job(Mod, "make_grid", gridargs))
    return out


def replay(cx):
    info = cx.get("info") or {}
    model = cx.get("model") or {}
    ob = cx["ob"]
    n, m, M, gf, p = info.get("n"), info.get("m"), info.get("M"), info.get("gf"), info.get("p", 1)
    if info.get("unit") == "make_seeded_intervals":
        from skchange.change_detectors.seeded_binseg import make_seeded_intervals
        try:
            with proxy.native():
                starts, ends = make_seeded_intervals(n, 2 * m, M, gf)
            bad = interval_problems(starts, ends, n, m, M)
        except Exception as ex:
            bad = [f"{type(ex).__name__}: {ex}"]
        return dict(reproduced=bool(bad), key=f"O1.candidate_intervals|{'M_or_n==2m' if min(M, n) == 2 * m else 'other'}",
                    what=f"make_seeded_intervals(n={n}, min_length={2 * m}, max_length={M}, growth_factor={gf}): {bad[:2]}")
    values = values_from_model(model, ["T"])
    tscale = float(Fraction(model.get("tscale", "1")))
    key = ob
    if ob.startswith("O1") or ob == "runs_to_completion":
        key = f"O1.candidate_intervals|{'M_or_n==2m' if min(M, n) == 2 * m else 'other'}"
    try:
        out, sc, th = _native(n, m, M, gf, p, values, tscale)
    except Exception as ex:
        return dict(reproduced=True, key=key, what=f"SeededBinarySegmentation(min_segment_length={m}, max_interval_length={M}, "
                    f"growth_factor={gf}) on n={n} raised {type(ex).__name__}: {ex}")
    starts, ends = [int(v) for v in sc["start"]], [int(v) for v in sc["end"]]
    maxi, vals = [int(v) for v in sc["argmax_cpt"]], [float(v) for v in sc["score"]]
    cpts = [int(c) for c in out["ilocs"]]
    bad = interval_problems(starts, ends, n, m, M) + problems_changepoints(out, n, m)
    g = lambda s, k, e: sum(values.get(f"T_{s}_{k}_{e}_{j}", 0.0) for j in range(p))
    for i, (s, e) in enumerate(zip(starts, ends)):
        cand = {k: g(s, k, e) for k in range(s + m, e - m + 1)}
        if not cand:
            continue
        best = max(cand.values())
        if maxi[i] not in cand or abs(vals[i] - best) > 1e-9 or abs(cand.get(maxi[i], 1e99) - best) > 1e-9:
            bad.append(f"interval [{s},{e}): reported score {vals[i]:.6g} at {maxi[i]}, true max {best:.6g} over splits {sorted(cand)}")
    if len(set(vals)) == len(vals):
        rem, ref = list(range(len(vals))), []
        while True:
            cand = [i for i in rem if vals[i] > th]
            if not cand:
                break
            b = max(cand, key=lambda i: vals[i])
            ref.append(maxi[b])
            rem = [i for i in rem if not (starts[i] <= maxi[b] < ends[i])]
            if b in rem:
                bad.append(f"reported maximiser {maxi[b]} lies outside its own interval [{starts[b]},{ends[b]})")
                break
        if sorted(ref) != cpts:
            bad.append(f"changepoints {cpts} but greedy reference gives {sorted(ref)} (scores {vals}, threshold {th:.6g})")
    if "cpts_higher" in info:
        dts = float(Fraction(model.get("dtscale", "0")))
        out2, _, _ = _native(n, m, M, gf, p, values, tscale + dts)
        if not set(int(c) for c in out2["ilocs"]) <= set(cpts):
            bad.append(f"raising the threshold scale {tscale}->{tscale + dts} changed {cpts} into {list(out2['ilocs'])}")
    return dict(reproduced=bool(bad), key=key, what=f"SeededBinarySegmentation(m={m}, M={M}, gf={gf}) n={n} p={p}: " + "; ".join(bad[:2]) + f" [table {values}]"[:400])
