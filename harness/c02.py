"""C02 -- PELT returns an exact minimiser of the penalised segmentation cost.

PELT(TableCost(), penalty_scale=sigma, min_segment_length=m).fit(X).predict(X) is
executed symbolically: every cost value is a free real variable constrained only by
the split inequality the property grants, sigma >= 0 is symbolic.  Each path of the
real run_pelt is one control-flow behaviour PELT can show on *any* data and *any*
admissible cost of that size; per path z3 (LRA) decides optimality against the
explicit minimum over all admissible segmentations."""
from __future__ import annotations

import math
from fractions import Fraction

import numpy as np
import pandas as pd
import z3

from symnp import proxy
from symnp.core import SymReal, rv
from symnp.drive import Acc, Harness, Job
from symnp.witness import close, robust_model

from .common import tsum
from .scorers import TableCost, values_from_model
from .wellformed import check_changepoints

PROPERTY = "C02"
FUNCTIONS = [
    "skchange.change_detectors.pelt:run_pelt",
    "skchange.change_detectors.pelt:get_changepoints",
    "skchange.change_detectors.pelt:PELT.__init__",
    "skchange.change_detectors.pelt:PELT._fit",
    "skchange.change_detectors.pelt:PELT._predict",
    "skchange.change_detectors.pelt:PELT._get_penalty",
    "skchange.change_detectors.pelt:PELT.get_default_penalty",
    "skchange.change_detectors.base:ChangeDetector._format_sparse_output",
    "skchange.base.base_detector:BaseDetector.fit",
    "skchange.base.base_detector:BaseDetector.predict",
    "skchange.utils.validation.data:check_data",
    "skchange.base.base_interval_scorer:BaseIntervalScorer.evaluate",
]
BOUNDS = {
    "quick": "min_segment_length m in {1,2}, n in [2m,5] (m=1), [2m,6] (m=2); p=1 (p=2 at n=4); "
             "every cost value and the penalty scale symbolic",
    "thorough": "m in {1,2,3}: n<=6 (m=1), n<=7 (m=2), n<=9 (m=3); p in {1,2}",
}
STUBS = ["TableCost: user-defined cost returning one free real per (start, end, column)"]
ASSUMPTIONS = [
    "split inequality sum_j c(s,e,j) >= sum_j c(s,k,j) + sum_j c(k,e,j) for every split with both parts >= m "
    "(what the property grants; nothing else is assumed about the cost)",
    "penalty_scale >= 0",
    "exact real arithmetic",
]
OUTSIDE = ["n beyond the bounds", "costs violating the split inequality", "floating-point ties",
           "built-in costs on symbolic data at detector level (composition with C01/C06 instead)"]


def cvar(s, e, j):
    return z3.Real(f"co_{s}_{e}_{j}")


def ccost(s, e, p):
    return tsum([cvar(s, e, j) for j in range(p)])


def segmentations(L, m):
    res = []

    def rec(start, acc):
        if L - start >= m:
            res.append(tuple(acc))
        for c in range(start + m, L - m + 1):
            rec(c, acc + [c])

    rec(0, [])
    return res


def seg_cost(cpts, L, pen, p):
    b = [0] + list(cpts) + [L]
    return tsum([ccost(s, e, p) for s, e in zip(b[:-1], b[1:])]) + pen * len(cpts)


def split_inequalities(n, m, p):
    cs = []
    for s in range(n):
        for e in range(s + 2 * m, n + 1):
            for k in range(s + m, e - m + 1):
                cs.append(ccost(s, e, p) >= ccost(s, k, p) + ccost(k, e, p))
    return cs


def dummy_X(n, p):
    return pd.DataFrame(np.zeros((n, p)))


def make_pelt(n, m, p=1, mode="c02", xdtype="float"):
    sigma = z3.Real("sigma")
    base = [sigma >= 0] + split_inequalities(n, m, p)
    X = dummy_X(n, p) if xdtype == "float" else dummy_X(n, p).astype("int64")
    info = dict(n=n, m=m, p=p, xdtype=xdtype)

    def run(eng, acc):
        from skchange.change_detectors import PELT
        from .prelude import prelude
        prelude("PELT", n, p, m, xdtype=xdtype)
        user_cost = TableCost(p=p)
        try:
            det = PELT(user_cost, penalty_scale=SymReal(sigma), min_segment_length=m)
            det.fit(X)
            out = det.predict(X)
        except Exception as ex:
            # e.g. an integer work array allocated from the data's dtype cannot hold a cost
            acc.concrete("runs_to_completion", False, dict(info, exception=f"{type(ex).__name__}: {ex}"[:200]), eng=eng)
            return
        cpts = [int(c) for c in out["ilocs"]]
        scores = det.scores.values
        pen = rv(det.penalty_)
        acc.add_to("outputs", tuple(cpts))
        check_changepoints(acc, out, n, m, info, "PELT", eng=eng)
        if mode == "c04":
            return
        # B0: the detector saw the data only through cost.evaluate on admissible cuts
        req = getattr(user_cost, "requested_", None)      # None if the detector works on a clone of the cost
        if req is not None:
            acc.concrete("B0.cuts_admissible", all(0 <= s and e <= n and e - s >= m for s, e in req), dict(info, req=req[:20]))
        else:
            acc.inc("B0_skipped_cost_was_cloned")
        # O1: every prefix score is the optimum over admissible segmentations
        for L in range(m, n + 1):
            segs = segmentations(L, m)
            sc = rv(scores[L - 1])
            terms = [seg_cost(c, L, pen, p) for c in segs]
            acc.oblige(eng, "O1.prefix_score_is_lower_bound", z3.And([sc <= t for t in terms]), dict(info, L=L, cpts=cpts))
            acc.oblige(eng, "O1.prefix_score_is_attained", z3.Or([sc == t for t in terms]), dict(info, L=L, cpts=cpts))
        # O2: the final score is the penalised cost of exactly the returned segmentation
        acc.oblige(eng, "O2.final_score_of_returned", rv(scores[n - 1]) == seg_cost(cpts, n, pen, p), dict(info, cpts=cpts))
        _witness(eng, acc, n, m, p, cpts, scores)
        acc.sample(dict(info, cpts=cpts, decisions=len(eng.trace), final_score=str(z3.simplify(rv(scores[n - 1])))[:200],
                        path_condition=[str(c).replace("\n", " ")[:140] for c in eng.pc[: eng.synced][:6]]))

    return Harness(run, base, name=f"pelt {info}")


def _native(n, m, p, values, sigma, xdtype="float"):
    from skchange.change_detectors import PELT
    from .prelude import prelude
    prelude("PELT", n, p, m, xdtype=xdtype)
    with proxy.native():
        det = PELT(TableCost(p=p, values=values), penalty_scale=float(sigma), min_segment_length=m)
        X = dummy_X(n, p) if xdtype == "float" else dummy_X(n, p).astype("int64")
        det.fit(X)
        out = det.predict(X)
        return [int(c) for c in out["ilocs"]], np.asarray(det.scores.values, dtype=float), float(det.penalty_)


def _witness(eng, acc, n, m, p, cpts, scores, cap=60):
    if acc.total("witness_tried") >= cap:
        return
    acc.inc("witness_tried")
    model, delta = robust_model(eng)
    if model is None:
        acc.inc("witness_tie_only_path")
        return
    from .common import model_env
    from symnp.witness import FloatEval
    env = model_env(model)
    values = {k: v for k, v in env.items() if k.startswith("co_")}
    try:
        got_cpts, got_scores, _ = _native(n, m, p, values, env.get("sigma", 0.0))
    except Exception as ex:
        acc.error(f"C02 witness: native run raised {type(ex).__name__}: {ex}")
        return
    fe = FloatEval(env, eng)
    ok = got_cpts == cpts and all(close(float(got_scores[i]), fe(rv(scores[i])), 1e-7, 1e-7) for i in range(m - 1, n))
    if ok:
        acc.inc("witness_ok")
    else:
        acc.error(f"C02 witness mismatch n={n} m={m}: symbolic cpts {cpts}, native {got_cpts}; table {values}")


# ----------------------------------------------------------------------------------

def jobs(tier, mode="c02"):
    M = "harness.c02"
    if tier == "quick":
        grid = [(2, 1, 1), (3, 1, 1), (4, 1, 1), (5, 1, 1), (4, 1, 2), (4, 2, 1), (5, 2, 1), (6, 2, 1), (6, 2, 2), (6, 3, 1), (7, 3, 1)]
    else:
        grid = ([(n, 1, 1) for n in range(2, 7)] + [(4, 1, 2), (5, 1, 2)] + [(n, 2, 1) for n in range(4, 8)] + [(6, 2, 2)]
                + [(n, 3, 1) for n in range(6, 10)] + [(8, 3, 2), (8, 4, 1), (9, 4, 1)])
    out = []
    for (n, m, p) in grid:
        big = (m == 1 and n >= 5) or (m == 2 and n >= 7) or (m == 3 and n >= 9)
        out.append(Job(M, "make_pelt", dict(n=n, m=m, p=p, mode=mode), split=big))
    # the same optimality claim when the data are integer typed (the cost values are still arbitrary reals)
    out.append(Job(M, "make_pelt", dict(n=4, m=1, p=1, mode=mode, xdtype="int64")))
    out.append(Job(M, "make_pelt", dict(n=5, m=2, p=1, mode=mode, xdtype="int64")))
    return out


def brute_force(values, n, m, p, pen, L=None):
    L = n if L is None else L
    best, arg = None, None
    for cp in segmentations(L, m):
        b = [0] + list(cp) + [L]
        tot = sum(values.get(f"co_{s}_{e}_{j}", 0.0) for s, e in zip(b[:-1], b[1:]) for j in range(p)) + pen * len(cp)
        if best is None or tot < best:
            best, arg = tot, cp
    return best, arg


def extra(tier, seed):
    """E2: CrossHair contracts of the pure-Python helpers this property rests on (thorough tier)."""
    if tier != "thorough":
        return None
    from .e2 import run_specs
    return run_specs(["get_changepoints"], timeout=90)


def replay(cx):
    from .e2 import replay_cx
    _e2 = replay_cx(cx)
    if _e2 is not None:
        return _e2
    info = cx.get("info") or {}
    n, m, p = info.get("n"), info.get("m"), info.get("p", 1)
    model = cx.get("model") or {}
    ob = cx["ob"]
    key = f"{ob}|m={'1' if m == 1 else '>=2'}"
    values = values_from_model(model, ["c"])
    sigma = float(Fraction(model.get("sigma", "0")))
    if ob.startswith("wellformed") or ob.startswith("B0"):
        from .wellformed import problems_changepoints
        from skchange.change_detectors import PELT
        with proxy.native():
            uc = TableCost(p=p, values=values)
            det = PELT(uc, penalty_scale=sigma, min_segment_length=m).fit(dummy_X(n, p))
            out = det.predict(dummy_X(n, p))
            req = getattr(uc, "requested_", [])
        bad = problems_changepoints(out, n, m)
        if not all(0 <= s and e <= n and e - s >= m for s, e in req):
            bad.append(f"cost evaluated on inadmissible cuts {[r for r in req if not (0 <= r[0] and r[1] <= n and r[1] - r[0] >= m)][:4]}")
        return dict(reproduced=bool(bad), key=key, what=f"PELT(min_segment_length={m}) on n={n}: {bad[:3]} [table {values}, scale {sigma}]")
    if ob == "runs_to_completion":      # the symbolic run died before any data-dependent decision: any non-integral table will do
        values = {f"co_{s_}_{e_}_{j}": 0.25 * ((3 * s_ + 5 * e_ + j) % 7) + 0.6 * (e_ - s_) ** 2 for s_ in range(n) for e_ in range(s_ + 1, n + 1) for j in range(p)}
        sigma = 0.3
    try:
        cpts, scores, pen = _native(n, m, p, values, sigma, info.get("xdtype", "float"))
    except Exception as ex:
        return dict(reproduced=True, key=f"runs_to_completion|{info.get('xdtype')}", what=f"PELT on {info.get('xdtype')} data raised {type(ex).__name__}: {ex}")
    scores = np.asarray(scores, dtype=float)
    tol = 1e-9
    bad = []
    for L in range(m, n + 1):
        best, arg = brute_force(values, n, m, p, pen, L)
        if abs(scores[L - 1] - best) > tol * (1 + abs(best)):
            bad.append(f"score of prefix [0,{L}) is {scores[L - 1]:.6g} but the optimal penalised cost is {best:.6g} (changepoints {list(arg)})")
    b = [0] + cpts + [n]
    ret = sum(values.get(f"co_{s}_{e}_{j}", 0.0) for s, e in zip(b[:-1], b[1:]) for j in range(p)) + pen * len(cpts)
    best, arg = brute_force(values, n, m, p, pen)
    if ret > best + tol * (1 + abs(best)):
        bad.append(f"returned changepoints {cpts} cost {ret:.6g} > optimum {best:.6g} at {list(arg)}")
    if abs(scores[n - 1] - ret) > tol * (1 + abs(ret)):
        bad.append(f"final score {scores[n - 1]:.6g} != penalised cost {ret:.6g} of the returned segmentation {cpts}")
    # the table must satisfy the split inequality for the counterexample to count
    for s in range(n):
        for e in range(s + 2 * m, n + 1):
            for k in range(s + m, e - m + 1):
                f = lambda a, b_: sum(values.get(f"co_{a}_{b_}_{j}", 0.0) for j in range(p))
                if f(s, e) < f(s, k) + f(k, e) - 1e-12:
                    return dict(reproduced=None, key=key, what="model violates the split inequality (harness bug)")
    what = (f"PELT(TableCost, penalty={pen:.6g}, min_segment_length={m}) on n={n}: " + "; ".join(bad[:3])
            + f" [cost table {values}]")
    return dict(reproduced=bool(bad), key=key, what=what[:900])
