"""E2 runner: CrossHair contracts of crosshair_specs/specs.py (DESIGN.md 2.3)."""
from __future__ import annotations

import importlib.util
import os
import re
import subprocess
import sys
import time
from concurrent.futures import ThreadPoolExecutor

from symnp.drive import Acc

HERE = os.path.dirname(os.path.dirname(os.path.abspath(__file__)))
SPECS = os.path.join(HERE, "crosshair_specs", "specs.py")


def _lines():
    """name -> line number of the def"""
    out = {}
    for i, line in enumerate(open(SPECS), start=1):
        m = re.match(r"def (_(?:spec|twin)_\w+)\(", line)
        if m:
            out[m.group(1)] = i
    return out


def _run_one(name, line, timeout):
    t0 = time.time()
    cmd = [sys.executable, "-m", "crosshair", "check", "--report_all", "--per_condition_timeout", str(timeout), f"{SPECS}:{line + 1}"]
    try:
        p = subprocess.run(cmd, capture_output=True, text=True, timeout=timeout * 3 + 60, cwd=HERE)
        txt = p.stdout + p.stderr
    except subprocess.TimeoutExpired:
        txt = "timeout"
    return name, txt, time.time() - t0


def run_specs(helpers, timeout=60):
    """helpers: e.g. ["where", "get_changepoints"].  Returns an Acc."""
    acc = Acc()
    lines = _lines()
    tasks = []
    for h in helpers:
        for kind in ("spec", "twin"):
            name = f"_{kind}_{h}"
            if name in lines:
                tasks.append((name, lines[name], timeout))
    with ThreadPoolExecutor(max_workers=8) as ex:
        results = list(ex.map(lambda a: _run_one(*a), tasks))
    for name, txt, dt in results:
        info = dict(engine="crosshair", spec=name, seconds=round(dt, 1))
        acc.inc("crosshair_conditions")
        if "ImportError" in txt or "cannot import name" in txt:
            acc.inc("E2_skipped_anchor_not_found")       # helper renamed / inlined: nothing to check here
            continue
        if name.startswith("_spec_"):
            if "Confirmed over all paths" in txt:
                acc.concrete(f"E2.{name}.confirmed_over_all_paths", True)
                acc.sample(dict(info, verdict="Confirmed over all paths"))
            else:
                m = re.search(r"error: (?:false|.*?) when calling (.+?) \(which (?:returns|raises)", txt)
                if m:
                    acc.concrete(f"E2.{name}.confirmed_over_all_paths", False, dict(info, call=m.group(1), output=txt.strip()[-300:]))
                else:
                    acc.inc("obligations")
                    acc.inc("inconclusive")
                    acc.inconclusive.append(dict(ob=f"E2.{name}", info="CrossHair: " + (txt.strip().splitlines()[-1][-200:] if txt.strip() else "no output")))
        else:
            ok = "error: false when calling" in txt
            if not ok:
                acc.error(f"E2 reachability twin {name} was not refuted (vacuous precondition or time-out): {txt.strip()[-200:]}")
            else:
                acc.inc("reachability_twins_refuted")
    return acc


def replay_call(call):
    """Evaluate the counterexample call CrossHair printed against the real helper."""
    spec = importlib.util.spec_from_file_location("e2_specs", SPECS)
    mod = importlib.util.module_from_spec(spec)
    spec.loader.exec_module(mod)
    try:
        res = eval(call, vars(mod))
    except Exception as ex:
        return False, f"{type(ex).__name__}: {ex}"
    return res is False, res


def replay_cx(cx):
    """Common replay hook for a failed E2 obligation; returns None if cx is not an E2 item."""
    info = cx.get("info") or {}
    if info.get("engine") != "crosshair":
        return None
    from symnp import proxy
    with proxy.native():
        bad, res = replay_call(info["call"])
    return dict(reproduced=bool(bad), key=f"E2|{info['spec']}", what=f"{info['call']} -> {res} (contract of the real helper violated)")
