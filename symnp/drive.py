"""symnp.drive -- jobs, parallel exploration, obligation bookkeeping, evidence.

A *job* is one bounded exploration: `maker(cfg)` (a module-level function named in the
job) returns a `Harness` whose `run(eng, acc)` is executed once per feasible path.
Large jobs are split over worker processes by a frontier of decision prefixes.
"""
from __future__ import annotations

import hashlib
import importlib
import inspect
import json
import multiprocessing as mp
import os
import sys
import time
import traceback
from fractions import Fraction

import z3

from . import core
from .core import Engine, PathAbort, explore, to_fraction

NPROC = int(os.environ.get("VERIF_PROCS", "16"))
XCHECK = os.environ.get("VERIF_XCHECK", "") == "1"      # E3 cross-check (thorough tier)
XCHECK_PER_TASK = 2
XCHECK_EVERY = 97
MAX_SAMPLES = 4
MAX_CEX_PER_JOB = 24          # counterexamples kept per job ...
MAX_CEX_PER_OB = 3            # ... at most this many per obligation kind, so that one noisy kind cannot crowd out another


class Harness:
    """What a maker returns."""

    def __init__(self, run, base=(), sliced=False, timeout_ms=20000, name="", max_paths=None):
        self.run = run
        self.base = list(base)
        self.sliced = sliced
        self.timeout_ms = timeout_ms
        self.name = name
        self.max_paths = max_paths


def model_to_dict(model):
    out = {}
    for d in model.decls():
        if d.arity() != 0:
            continue
        v = model[d]
        try:
            out[d.name()] = str(to_fraction(v))
        except Exception:
            out[d.name()] = str(v)
    return out


_REFUTE_POINTS = [Fraction(k, 4) for k in (-9, -6, -5, -3, -2, -1, 1, 2, 3, 5, 7, 10)]


def numeric_refute(eng, prop, tries=6, salt=0):
    """Look for a rational point satisfying the path condition and falsifying prop.
    Returns {var: 'p/q'} or None.  Only an accelerator for the *sat* case: "holds" is
    never concluded from it."""
    import random
    from .core import free_vars
    from .witness import FloatEval
    rel = eng._relevant(z3.Not(prop))
    names = set(free_vars(prop, eng._fv_cache))
    for c in rel:
        names |= free_vars(c, eng._fv_cache)
    names = sorted(n for n in names if "#" not in n)
    rng = random.Random((hash(tuple(names)) + salt) & 0xFFFF)
    for _ in range(tries):
        env = {n: rng.choice(_REFUTE_POINTS) for n in names}
        fe = FloatEval(env, eng)
        try:
            if not all(fe(c) for c in rel):
                continue
            if _falsified(fe, prop):
                return {n: str(v) for n, v in env.items()}
        except (ZeroDivisionError, ValueError, OverflowError, NotImplementedError, KeyError):
            continue
    return None


def _falsified(fe, prop, tol=1e-6):
    k = prop.decl().kind() if z3.is_app(prop) else None
    if k == z3.Z3_OP_AND:
        return any(_falsified(fe, c, tol) for c in prop.children())
    if k == z3.Z3_OP_OR:
        return all(_falsified(fe, c, tol) for c in prop.children())
    if k in (z3.Z3_OP_EQ, z3.Z3_OP_LE, z3.Z3_OP_GE, z3.Z3_OP_LT, z3.Z3_OP_GT) and prop.arg(0).sort().kind() == z3.Z3_REAL_SORT:
        a, b = fe(prop.arg(0)), fe(prop.arg(1))
        if a != a or b != b:
            return False
        m = tol * (1 + abs(a) + abs(b))
        if k == z3.Z3_OP_EQ:
            return abs(a - b) > m
        if k in (z3.Z3_OP_LE, z3.Z3_OP_LT):
            return a > b + m
        return a < b - m
    return False


class Acc:
    """Picklable accumulator of what a job covered."""

    def __init__(self, parent=None):
        self.parent = parent   # per-path child accumulators are merged only if the path completes
        self.c = {}            # counters
        self.cex = []          # counterexamples: dict(ob=, cfg=, model=, info=)
        self.samples = []      # written-out cases
        self.inconclusive = []
        self.errors = []       # harness errors (strings)
        self.sets = {}         # name -> set of hashable items (e.g. distinct outputs)
        self.by_ob = {}        # obligation name -> [n, discharged]

    def total(self, key):
        """counter value including the parent's (for caps that span paths)"""
        return self.c.get(key, 0) + (self.parent.total(key) if self.parent is not None else 0)

    def inc(self, key, k=1):
        self.c[key] = self.c.get(key, 0) + k

    def add_to(self, key, item):
        self.sets.setdefault(key, set()).add(item)

    def sample(self, s, limit=MAX_SAMPLES):
        if len(self.samples) < limit:
            self.samples.append(s)

    def error(self, msg):
        if len(self.errors) < 20:
            self.errors.append(msg)
        self.inc("errors")

    def oblige(self, eng, name, prop, info=None):
        """Decide `path condition => prop`; book-keep; return True/False/None."""
        self.inc("obligations")
        rec = self.by_ob.setdefault(name, [0, 0])
        rec[0] += 1
        ok, model = None, None
        if not isinstance(prop, z3.ExprRef):
            ok = bool(prop)
        elif eng.sliced:
            # non-linear harness: a numeric refutation attempt first (models of NRA +
            # Ackermannised log are expensive for z3 to find; a numeric point that
            # satisfies the path condition and falsifies prop is a counterexample
            # candidate just the same -- it is replayed on the real code like any other)
            pt = numeric_refute(eng, prop)
            if pt is not None:
                ok, model = False, pt
        if ok is None and isinstance(prop, z3.ExprRef):
            ok, model = eng.valid(prop)
            if ok is False and eng.sliced:
                # z3's model may exploit the uninterpreted log / sqrt contracts; prefer a
                # point at which the *true* functions falsify prop (it will replay)
                pt = numeric_refute(eng, prop, tries=80, salt=1)
                if pt is not None:
                    model = pt
        if ok is not None and isinstance(prop, z3.ExprRef) and XCHECK and self.total("xcheck_tried") < XCHECK_PER_TASK \
                and (self.total("obligations") % XCHECK_EVERY) == 1:
            self._cross_check(eng, name, prop, ok)
        if ok is True:
            self.inc("discharged")
            rec[1] += 1
            return True
        if ok is None:
            self.inc("inconclusive")
            if len(self.inconclusive) < 20:
                self.inconclusive.append(dict(ob=name, info=info))
            return None
        self.inc("violating_obligations")
        if self._cex_room(name):
            self.cex.append(dict(ob=name, info=info,
                                 model=(model if isinstance(model, dict) else model_to_dict(model))
                                 if model is not None else None))
        return False

    def _cross_check(self, eng, name, prop, verdict):
        """E3: re-decide the query with /usr/bin/z3 (4.8.12) and the cvc5 binary from an SMT-LIB dump."""
        import subprocess
        import tempfile
        self.inc("xcheck_tried")
        s = z3.Solver()
        if eng.sliced:
            s.add(*eng._relevant(z3.Not(prop)))
        else:
            s.add(*eng.base)
            s.add(*eng.pc[: eng.synced])
        s.add(z3.Not(prop))
        text = s.to_smt2()
        want = "unsat" if verdict is True else "sat"
        with tempfile.NamedTemporaryFile("w", suffix=".smt2", delete=False, dir=os.environ.get("VERIF_SCRATCH") or None) as f:
            f.write(text)
            path = f.name
        try:
            for solver, cmd in (("z3-4.8.12", ["/usr/bin/z3", "-T:20", path]), ("cvc5-1.0", ["cvc5", "--tlimit=20000", path])):
                try:
                    out = subprocess.run(cmd, capture_output=True, text=True, timeout=40).stdout.strip().splitlines()
                except Exception:
                    out = []
                ans = out[0].strip() if out else "no answer"
                if "(error" in " ".join(out):
                    ans = "error"
                if ans in ("sat", "unsat"):
                    if ans == want:
                        self.inc(f"xcheck_agree_{solver}")
                    else:
                        self.error(f"E3 cross-check: {solver} says {ans}, z3 5.1 said {want} on obligation {name}")
                else:
                    self.inc(f"xcheck_no_opinion_{solver}")
        finally:
            try:
                os.unlink(path)
            except OSError:
                pass

    def _cex_room(self, name):
        return len(self.cex) < MAX_CEX_PER_JOB and sum(1 for c in self.cex if c.get("ob") == name) < MAX_CEX_PER_OB

    def concrete(self, name, ok, info=None, eng=None):
        """A concrete (solver-free) obligation evaluated on a path's concrete output.
        With `eng`, a failing obligation carries a model of the path so that the path
        can be replayed on the unpatched code."""
        self.inc("obligations")
        rec = self.by_ob.setdefault(name, [0, 0])
        rec[0] += 1
        if ok:
            self.inc("discharged")
            rec[1] += 1
            return True
        self.inc("violating_obligations")
        if self._cex_room(name):
            model = None
            if eng is not None:
                try:
                    from .witness import robust_model
                    m, _ = robust_model(eng)
                    if m is None:
                        m = eng.path_model()
                    model = model_to_dict(m) if m is not None else None
                except Exception:
                    model = None
            self.cex.append(dict(ob=name, info=info, model=model))
        return False

    def merge(self, o):
        for k, v in o.c.items():
            self.c[k] = self.c.get(k, 0) + v
        for cx in o.cex:
            if self._cex_room(cx.get("ob")):
                self.cex.append(cx)
        room = max(0, MAX_SAMPLES - len(self.samples))
        self.samples.extend(o.samples[:room])
        self.inconclusive.extend(o.inconclusive[: max(0, 20 - len(self.inconclusive))])
        self.errors.extend(o.errors[: max(0, 20 - len(self.errors))])
        for k, v in o.sets.items():
            self.sets.setdefault(k, set()).update(v)
        for k, (n, d) in o.by_ob.items():
            rec = self.by_ob.setdefault(k, [0, 0])
            rec[0] += n
            rec[1] += d


class Job:
    def __init__(self, module, maker, cfg, split=False, label=None):
        self.module = module
        self.maker = maker
        self.cfg = cfg
        self.split = split
        self.label = label or f"{maker}({', '.join(f'{k}={v}' for k, v in cfg.items())})"

    def build(self):
        mod = importlib.import_module(self.module)
        return getattr(mod, self.maker)(**self.cfg)


WALL_BUDGET = float(os.environ.get("VERIF_WALL_BUDGET", "1e9"))   # seconds of wall time per check before the exploration is cut (set per tier in harness.main)
BUDGET = int(os.environ.get("VERIF_TASK_BUDGET", "400"))     # paths per task of a split job before re-queueing


def _run_prefix(args):
    job, prefix, frontier_depth = args[:3]
    budget = args[3] if len(args) > 3 else None
    acc = Acc()
    t0 = time.time()
    try:
        hs = job.build()
        hs = hs if isinstance(hs, (list, tuple)) else [hs]
        frontier = []
        for h in hs:
            def fn(eng, h=h):
                # transactional: what a path records counts only if the path completes
                # (or ends in Infeasible after its obligations, see explore)
                pacc = Acc(parent=acc)
                try:
                    r = h.run(eng, pacc)
                except core.Infeasible:
                    if eng.pending is None or isinstance(eng.pending, core.Infeasible):
                        pacc.parent = None
                        acc.merge(pacc)
                    raise
                if eng.pending is None:
                    pacc.parent = None
                    acc.merge(pacc)
                return r

            def on_abort(eng, ex, h=h):
                acc.inc("aborted_paths")
                if len(acc.inconclusive) < 20:
                    acc.inconclusive.append(dict(ob=f"<path aborted in {h.name or job.label}>",
                                                 info=f"{type(ex).__name__}: {ex}"))

            res, st, eng = explore(fn, h.base, timeout_ms=h.timeout_ms, fixed_prefix=prefix or (),
                                   frontier_depth=frontier_depth, sliced=h.sliced,
                                   max_paths=h.max_paths, on_abort=on_abort, budget=budget)
            acc.inc("paths", st["complete"])
            acc.inc("infeasible_paths", st["infeasible"])
            acc.inc("decisions", st["decisions"])
            acc.inc("checks", st["checks"])
            acc.c["solver_s"] = acc.c.get("solver_s", 0.0) + st["solver_s"]
            if st.get("truncated"):
                acc.error(f"{job.label}: exploration truncated at max_paths")
            frontier = eng.frontier
    except PathAbort:
        raise
    except Exception:
        acc.error(f"{job.label}: harness crashed: {traceback.format_exc(limit=8)}")
        frontier = []
    return job.label, acc, frontier, time.time() - t0


def _init_worker():
    sys.setrecursionlimit(20000)


def run_jobs(jobs, procs=NPROC, progress=False):
    """Run all jobs; returns {label: Acc}.  Split jobs are divided by decision prefix; a task that exceeds its
    path budget hands its unexplored alternatives back and they are re-queued (dynamic load balancing)."""
    results = {}
    walls = {}
    t0 = time.time()
    ctx = mp.get_context("fork")
    with ctx.Pool(procs, initializer=_init_worker) as pool:
        pending = []          # (job, AsyncResult)
        for j in jobs:
            if not j.split:
                pending.append((j, pool.apply_async(_run_prefix, ((j, None, None),))))
        fr = [(j, pool.apply_async(_frontier, ((j, procs),))) for j in jobs if j.split]
        exhausted = False
        for j, r in fr:
            while not r.ready() and time.time() - t0 <= WALL_BUDGET:
                r.wait(0.5)
            if not r.ready():
                # a path of the real code that never returns (seen with a seeded change that makes a greedy loop
                # non-terminating): the budget applies to the frontier stage as well
                exhausted = True
                acc = results.setdefault(j.label, Acc())
                acc.inc("inconclusive")
                acc.inc("obligations")
                acc.inconclusive.append(dict(ob="<exploration budget exhausted>", info=f"job {j.label}: frontier not finished after {WALL_BUDGET:.0f} s wall"))
                continue
            label, acc, prefixes, w = r.get()
            results[label] = acc
            walls[label] = w
            for p in prefixes:
                pending.append((j, pool.apply_async(_run_prefix, ((j, p, None, BUDGET),))))
        if exhausted:
            # collect what has finished, cut the rest
            for j, r in pending:
                if r.ready():
                    label, acc, leftovers, w = r.get()
                    results.setdefault(label, Acc()).merge(acc)
                else:
                    acc = results.setdefault(j.label, Acc())
                    acc.inc("inconclusive")
                    acc.inc("obligations")
                    acc.inconclusive.append(dict(ob="<exploration budget exhausted>", info=f"job {j.label} stopped after {WALL_BUDGET:.0f} s wall"))
            pool.terminate()
            pending = []
        while pending:
            still = []
            progressed = False
            for j, r in pending:
                if not r.ready():
                    still.append((j, r))
                    continue
                progressed = True
                label, acc, leftovers, w = r.get()
                if label in results:
                    results[label].merge(acc)
                else:
                    results[label] = acc
                walls[label] = walls.get(label, 0.0) + w
                if j.split:
                    for p in leftovers:
                        still.append((j, pool.apply_async(_run_prefix, ((j, p, None, BUDGET),))))
                if progress:
                    print(f"  .. {label}: {acc.c.get('paths', 0)} paths, {w:.1f}s" + (f", {len(leftovers)} re-queued" if j.split and leftovers else ""), flush=True)
            pending = still
            if not progressed:
                time.sleep(0.05)
            if pending and time.time() - t0 > WALL_BUDGET:
                # exploration budget of the tier exhausted (only ever seen on modified code whose path count explodes):
                # stop, keep everything found so far, and say which jobs were cut short -- never a silent pass
                cut = sorted({j.label for j, _ in pending})
                pool.terminate()
                for label in cut:
                    acc = results.setdefault(label, Acc())
                    acc.inc("inconclusive")
                    acc.inc("obligations")
                    acc.inconclusive.append(dict(ob="<exploration budget exhausted>", info=f"job {label} stopped after {WALL_BUDGET:.0f} s wall"))
                break
    for label, acc in results.items():
        acc.c["cpu_wall_s"] = round(walls.get(label, 0.0), 2)
    return results, time.time() - t0


def _frontier(args):
    """Refine a frontier of decision prefixes until it can feed the pool.  Paths that
    complete above the frontier are accounted for here (once)."""
    job, procs = args
    t0 = time.time()
    total = Acc()
    label = job.label
    prefixes = [()]
    depth = 4
    while prefixes and len(prefixes) < 6 * procs and depth < 400 and time.time() - t0 < 20:
        nxt = []
        for pre in prefixes:
            label, acc, fr, _ = _run_prefix((job, list(pre), len(pre) + depth))
            total.merge(acc)
            nxt.extend(tuple(f) for f in fr)
        prefixes = nxt
        depth = 2
    return label, total, [list(p) for p in prefixes], time.time() - t0


# ----------------------------------------------------------------------------------
# functions encoded
# ----------------------------------------------------------------------------------

def function_hashes(qualnames):
    """SHA-256 of the current source of each function/class executed symbolically."""
    out = {}
    for q in qualnames:
        modname, _, attr = q.partition(":")
        try:
            obj = importlib.import_module(modname)
            for part in attr.split("."):
                obj = getattr(obj, part)
            obj = inspect.unwrap(obj)
            if isinstance(obj, (staticmethod, classmethod)):
                obj = obj.__func__
            if isinstance(obj, property):
                obj = obj.fget
            src = inspect.getsource(obj)
            out[q] = hashlib.sha256(src.encode()).hexdigest()[:16]
        except Exception as ex:
            out[q] = f"anchor not found ({type(ex).__name__})"
    return out


def jsonable(x):
    if isinstance(x, dict):
        return {str(k): jsonable(v) for k, v in x.items()}
    if isinstance(x, (list, tuple, set, frozenset)):
        return [jsonable(v) for v in x]
    if isinstance(x, Fraction):
        return str(x)
    if isinstance(x, (int, float, str, bool)) or x is None:
        return x
    try:
        import numpy as np
        if isinstance(x, np.integer):
            return int(x)
        if isinstance(x, np.floating):
            return float(x)
        if isinstance(x, np.ndarray):
            return jsonable(x.tolist())
    except Exception:
        pass
    return str(x)
