"""Process-state prelude shared by the detector harnesses.

Every detector run a harness observes (symbolically, and natively in witnesses / replays) starts from a
process in which *another, differently configured instance of the same detector class has already worked
on data of the same shape*.  The harnesses' oracles are semantic (optimality, greedy selection, window
scores), not "same as a fresh object", so anything remembered at class or module level and keyed by the
data's shape or index instead of by the hyper-parameters (a class-attribute cache, an lru_cache whose
result is mutated, a module-level table) shows up as a wrong result of the observed run (seed C10-d).
The prelude uses concrete all-zero table scorers: it never forks and costs a few milliseconds, once per
process and configuration."""
from __future__ import annotations

import numpy as np
import pandas as pd

_done = set()


def prelude(kind, n, p, m=1, M=None, xdtype="float"):
    key = (kind, n, p, m, M, xdtype)
    if key in _done:
        return
    _done.add(key)
    from symnp import proxy
    from .scorers import TableChangeScore, TableCost, TableLocalScore, TableSaving
    X = pd.DataFrame(np.zeros((n, p)))
    if xdtype != "float":
        X = X.astype(xdtype)
    z = dict(values={}, default=0.0)
    try:
        with proxy.native():
            if kind == "PELT":
                from skchange.change_detectors import PELT
                PELT(TableCost(p=p, **z), penalty_scale=3.25, min_segment_length=m).fit(X).predict(X)
            elif kind == "MovingWindow":
                from skchange.change_detectors import MovingWindow
                d = MovingWindow(TableChangeScore(p=p, **z), bandwidth=m, threshold_scale=3.25).fit(X)
                d.predict(X)
                d.transform_scores(X)
            elif kind == "SBS":
                from skchange.change_detectors import SeededBinarySegmentation
                SeededBinarySegmentation(TableChangeScore(p=p, **z), threshold_scale=3.25, min_segment_length=m,
                                         max_interval_length=M or 200, growth_factor=1.75).fit(X).predict(X)
            elif kind == "CBS":
                from skchange.anomaly_detectors import CircularBinarySegmentation
                CircularBinarySegmentation(TableLocalScore(p=p, **z), threshold_scale=3.25, min_segment_length=m,
                                           max_interval_length=M or 200, growth_factor=1.75).fit(X).predict(X)
            elif kind == "CAPA":
                from skchange.anomaly_detectors import CAPA
                CAPA(TableSaving(p=p, **z), TableSaving(p=p, tag="P", **z), collective_penalty_scale=3.25, point_penalty_scale=1.75,
                     min_segment_length=m, max_segment_length=M or 1000).fit(X).predict(X)
            elif kind == "MVCAPA":
                from skchange.anomaly_detectors import MVCAPA
                for cpen, ppen in (("sparse", "dense"), ("intermediate", "sparse")):
                    d = MVCAPA(TableSaving(p=p, **z), TableSaving(p=p, tag="P", **z), collective_penalty=cpen, collective_penalty_scale=3.25,
                               point_penalty=ppen, point_penalty_scale=1.75, min_segment_length=m, max_segment_length=M or 1000).fit(X)
                    d.predict(X)
                    d.transform(X)
    except Exception:
        # the prelude is only there to put the process into a used state; what the detector does on its own inputs
        # is the business of the observed run
        pass
