"""C10 -- results depend only on hyper-parameters, training data and the input.

Product programs: a history of public calls and its reference (a fresh / cloned /
set_params-configured object fitted the same way) are run in the same symbolic path
and their observed outputs must be the same detections and the same z3 terms.  Only
the dataset of the observed call is symbolic; datasets of earlier calls are concrete
(the design-phase probe showed that two symbolic datasets multiply the path counts
beyond reach).  Table scorers are *dataset-tagged*: fitted on the symbolic dataset they
return solver variables, fitted on a concrete one they return fixed numbers, so any
stale state from an earlier call shows up as a different term."""
from __future__ import annotations

from fractions import Fraction

import numpy as np
import pandas as pd
import z3

from symnp import proxy
from symnp.core import Engine, SymReal, is_sym, rv
from symnp.drive import Acc, Harness, Job

from .common import sym_matrix
from .scorers import TableChangeScore, TableCost, TableLocalScore, TableSaving

PROPERTY = "C10"
FUNCTIONS = [
    "skchange.base.base_detector:BaseDetector.fit",
    "skchange.base.base_detector:BaseDetector.predict",
    "skchange.base.base_detector:BaseDetector.transform",
    "skchange.base.base_detector:BaseDetector.transform_scores",
    "skchange.base.base_detector:BaseDetector.update",
    "skchange.base.base_interval_scorer:BaseIntervalScorer.fit",
    "skchange.base.base_interval_scorer:BaseIntervalScorer.evaluate",
    "skchange.change_detectors.pelt:PELT._predict",
    "skchange.change_detectors.moving_window:MovingWindow._predict",
    "skchange.change_detectors.seeded_binseg:SeededBinarySegmentation._predict",
    "skchange.anomaly_detectors.circular_binseg:CircularBinarySegmentation._predict",
    "skchange.anomaly_detectors.capa:CAPA._predict",
    "skchange.anomaly_detectors.mvcapa:MVCAPA._predict",
    "skchange.anomaly_detectors.anomalisers:StatThresholdAnomaliser._fit",
    "skchange.anomaly_detectors.anomalisers:StatThresholdAnomaliser._predict",
    "skchange.anomaly_scores.from_cost:Saving._fit",
    "skchange.anomaly_scores.from_cost:LocalAnomalyScore._evaluate",
    "skchange.change_scores.from_cost:ChangeScore._fit",
]
BOUNDS = {
    "quick": "seven detectors, twelve histories of up to four earlier calls (earlier predict / transform / transform_scores on "
             "another dataset, earlier fits incl. another number of columns, repeated calls, a second detector sharing the "
             "scorer object, clone, set_params, update == fit on combined data); observed dataset symbolic n=4 (CBS 5, "
             "CAPA/MVCAPA 3), side datasets concrete n in {6,7}, p in {1,2}; eight scorers / adapters with fit-evaluate "
             "histories on symbolic data n=4",
    "thorough": "observed dataset one size larger, p in {1,2} for every detector",
}
STUBS = ["dataset-tagged table scorers (symbolic table for the symbolic dataset, fixed numeric table for concrete ones)"]
ASSUMPTIONS = ["histories are enumerated (that is the bound); the verdict per history is over all values of the observed "
               "dataset / table", "side datasets are one concrete dataset per shape"]
OUTSIDE = ["longer histories", "pickling, multiprocessing", "leaks that depend on the values of the side dataset",
           "adapters (not detectors) sharing one cost object: evaluate of one adapter after another adapter refitted the "
           "shared cost is not claimed by the property's sharing clause, which names detectors"]


class _Tagged:
    """Table scorer that answers with solver variables when fitted on symbolic data and
    with fixed numbers when fitted on concrete data."""

    def _table_fit(self, X):
        super()._table_fit(X)
        flat = np.asarray(X, dtype=object).ravel()
        self.symbolic_ = bool(len(flat)) and is_sym(flat[0])
        # fingerprint of concrete data: two concrete datasets of the same shape get different tables
        self.fp_ = 0 if self.symbolic_ else int(round(sum((i % 5 + 1) * abs(float(v)) for i, v in enumerate(flat)) * 4)) % 13
        return self

    # replay only: (numeric data standing for the symbolic dataset A, the solver model's values of A's table variables)
    replay_A = None

    def _table_eval(self, cuts, tag):
        if self.symbolic_:
            return super()._table_eval(cuts, tag)
        cuts = np.asarray(cuts)
        out = np.empty((cuts.shape[0], self.p), dtype=float)
        ra = _Tagged.replay_A
        is_A = ra is not None and np.shape(self.seen_) == ra[0].shape and np.array_equal(np.asarray(self.seen_, dtype=float), ra[0])
        for i, c in enumerate(cuts):
            for j in range(self.p):
                h = sum((k + 2) * 7 * int(v) for k, v in enumerate(c)) + 3 * j + 5 * self.n_ + 11 * self.fp_
                out[i, j] = (h % 23) / 4.0
                if is_A:
                    out[i, j] = ra[1].get(f"{tag}_{'_'.join(str(int(v)) for v in c)}_{j}", out[i, j])
        return out


class TCost(_Tagged, TableCost):
    """the fixed parameter's value is part of the variable names, so a stale parameter shows"""

    def _evaluate(self, cuts):
        mode = "o" if self.param is None else "f" + str(self.param).replace(".", "d").replace("-", "m")
        return self._table_eval(cuts, self.tag + mode)


class TChange(_Tagged, TableChangeScore):
    pass


class TSaving(_Tagged, TableSaving):
    pass


class TLocal(_Tagged, TableLocalScore):
    pass


def build(det, scorers=None, scale=None, alt=False, wrap=False, tuned=False):
    """alt=True: a differently configured instance (for the set_params history).
    wrap=True: the detector is given a (table) *cost*; it builds its own ChangeScore / Saving /
    LocalAnomalyScore adapter around it, so two detectors sharing the cost object have distinct
    adapters whose fitted state refers to the one shared cost."""
    from skchange.anomaly_detectors import CAPA, MVCAPA, CircularBinarySegmentation, StatThresholdAnomaliser
    from skchange.change_detectors import PELT, MovingWindow, SeededBinarySegmentation
    # the penalty / threshold scale is concrete here: with a symbolic scale the runs on the concrete side
    # datasets would fork on it and multiply the path count without adding anything to this property
    s = 0.5 if scale is None else scale
    if alt:
        s = 7.0
    if tuned and det in ("MovingWindow", "SBS", "CBS", "StatThresholdAnomaliser"):
        s = None          # threshold tuned on the training data at fit (threshold_scale=None)
    any_p = dict(any_p=True)
    if wrap and det in ("MovingWindow", "SBS", "CBS"):
        sc = scorers or [TCost(**any_p)]
        if det == "MovingWindow":
            return MovingWindow(sc[0], bandwidth=1, threshold_scale=s), sc
        if det == "SBS":
            return SeededBinarySegmentation(sc[0], threshold_scale=s, min_segment_length=1, growth_factor=2.0), sc
        return CircularBinarySegmentation(sc[0], threshold_scale=s, min_segment_length=1, growth_factor=2.0), sc
    if wrap and det in ("CAPA", "MVCAPA"):
        sc = scorers or [TCost(param=0.0, **any_p), TCost(param=0.0, tag="q", **any_p)]
        cls = CAPA if det == "CAPA" else MVCAPA
        return cls(sc[0], sc[1], collective_penalty_scale=s, point_penalty_scale=s, min_segment_length=2), sc
    if det == "PELT":
        sc = scorers or [TCost(**any_p)]
        return PELT(sc[0], penalty_scale=s, min_segment_length=1 if not alt else 2), sc
    if det == "MovingWindow":
        sc = scorers or [TChange(**any_p)]
        return MovingWindow(sc[0], bandwidth=1 if not alt else 2, threshold_scale=s), sc
    if det == "SBS":
        sc = scorers or [TChange(**any_p)]
        return SeededBinarySegmentation(sc[0], threshold_scale=s, min_segment_length=1 if not alt else 2, growth_factor=2.0), sc
    if det == "CBS":
        sc = scorers or [TLocal(**any_p)]
        return CircularBinarySegmentation(sc[0], threshold_scale=s, min_segment_length=1 if not alt else 2, growth_factor=2.0), sc
    if det == "CAPA":
        sc = scorers or [TSaving(**any_p), TSaving(tag="P", **any_p)]
        return CAPA(sc[0], sc[1], collective_penalty_scale=s, point_penalty_scale=s, min_segment_length=2 if not alt else 3), sc
    if det == "MVCAPA":
        sc = scorers or [TSaving(**any_p), TSaving(tag="P", **any_p)]
        return MVCAPA(sc[0], sc[1], collective_penalty="sparse", collective_penalty_scale=s, point_penalty="sparse", point_penalty_scale=s,
                      min_segment_length=2 if not alt else 3), sc
    if det == "StatThresholdAnomaliser":
        from .c11 import _val_stat
        sc = scorers or [TChange(**any_p)]
        inner = MovingWindow(sc[0], bandwidth=1 if not alt else 2, threshold_scale=s)
        return StatThresholdAnomaliser(inner, stat=_val_stat, stat_lower=-1.0 if not alt else -5.0, stat_upper=1.0), sc
    raise ValueError(det)


def _set_p(scorers, p):
    for s in scorers:
        s.p = p


def observe(d, X, how):
    from .c11 import _sparse, _terms
    if how == "predict":
        return ("sparse", _sparse(d.predict(X)))
    if how == "transform":
        t = d.transform(X)
        return ("dense", np.asarray(t.values).tolist(), list(map(str, t.index)))
    try:
        ts = d.transform_scores(X)
    except NotImplementedError:
        return ("scores", "NotImplementedError")
    vals = ts["score"] if isinstance(ts, pd.DataFrame) and "score" in ts else ts
    return ("scores", _terms(vals), list(map(str, ts.index)))


def same_obs(a, b):
    if a[0] != b[0] or len(a) != len(b):
        return False
    for x, y in zip(a[1:], b[1:]):
        if isinstance(x, list) and x and isinstance(x[0], z3.ExprRef):
            if len(x) != len(y) or not all(u.eq(v) for u, v in zip(x, y)):
                return False
        elif x != y:
            return False
    return True


def fitted_params(d):
    out = {}
    for k, v in vars(d).items():
        if k in ("penalty_", "threshold_", "collective_penalty_", "point_penalty_"):
            out[k] = z3.simplify(rv(v))
    return out


def same_params(a, b):
    return set(a) == set(b) and all(a[k].eq(b[k]) for k in a)


HISTORIES = [
    ("earlier_predict_on_other_data", ["fit A", "predict B", "OBS predict A"], "A"),
    ("earlier_fit_on_other_data", ["fit B", "fit A", "OBS predict A"], "A"),
    ("earlier_fit_on_other_shape", ["fit B2", "predict B2", "fit A", "OBS predict A"], "A"),
    ("fitted_on_other_data_than_input", ["fit B", "OBS predict A"], "B"),
    ("earlier_scores_on_other_data", ["fit A", "transform_scores B", "OBS transform A"], "A"),
    ("repeated_calls", ["fit A", "predict A", "transform A", "OBS predict A"], "A"),
    ("scores_after_other_predict", ["fit A", "predict B", "OBS transform_scores A"], "A"),
    ("shared_scorer_object", ["fit A", "OTHER fit B", "OTHER predict B", "OBS predict A"], "A"),
    ("shared_scorer_object_scores", ["OTHER fit B", "fit A", "OTHER transform B", "OBS transform_scores A"], "A"),
    ("refit_same_data", ["fit A", "predict A", "fit A", "OBS transform_scores A"], "A"),
    ("shared_scorer_after_own_predict", ["fit A", "predict A", "OTHER fit B", "OTHER predict B", "OBS predict A"], "A"),
    ("shared_scorer_interleaved_transform", ["fit A", "transform A", "OTHER fit B", "OTHER transform B", "OBS transform A"], "A"),
    # C: another dataset with the SAME shape and index as A (anything remembered per shape / per index shows here)
    ("scores_after_predict_on_same_shape_data", ["fit A", "predict C", "OBS transform_scores A"], "A"),
    ("scores_after_refit_from_same_shape_data", ["fit C", "predict C", "fit A", "OBS transform_scores A"], "A"),
    ("predict_after_scores_on_same_shape_data", ["fit A", "transform_scores C", "OBS predict A"], "A"),
    ("transform_after_transform_on_same_shape_data", ["fit A", "transform C", "OBS transform A"], "A"),
    ("second_detector_on_same_shape_data", ["OTHER fit C", "OTHER predict C", "fit A", "OBS predict A"], "A"),
    ("differently_configured_instance_first", ["ALT fit C", "ALT predict C", "ALT transform_scores C", "fit A", "OBS predict A"], "A"),
    # S: a dataset one row SHORTER than A (anything derived from the data's length and kept between calls shows here)
    ("earlier_predict_on_shorter_data", ["fit A", "predict S", "transform_scores S", "OBS predict A"], "A"),
    ("earlier_fit_and_predict_on_shorter_data", ["fit S", "predict S", "fit A", "OBS transform_scores A"], "A"),
    ("fitted_on_same_shape_data", ["fit C", "OBS predict A"], "C"),
    ("fitted_on_same_shape_data_scores", ["fit C", "transform_scores C", "OBS transform_scores A"], "C"),
]


def make_det(det, n, p, group="same_train", wrap=False):
    """group: histories whose observed call runs under the same fitted threshold are explored together (the decision
    memo makes them free); histories with another fitted threshold get their own exploration, otherwise the path
    counts would multiply."""
    A = sym_matrix(n, p)
    base = [z3.Real("scale") >= 0]
    if det == "PELT":
        from .c02 import split_inequalities
        base += split_inequalities(n, 1, p)
    if det in ("CAPA", "MVCAPA"):
        from .c03 import table_assumptions
        base += table_assumptions(n, p, 2, n)
    info = dict(part="detector", det=det, n=n, p=p, group=group, wrap=wrap)
    rngB = np.random.default_rng(5)
    data = {"A": pd.DataFrame(A.copy()), "B": pd.DataFrame(rngB.integers(-4, 5, size=(6, p)).astype(float)),
            "B2": pd.DataFrame(rngB.integers(-4, 5, size=(7, 3 - p)).astype(float))}
    if det == "StatThresholdAnomaliser" or wrap:
        data["B2"] = pd.DataFrame(rngB.integers(-4, 5, size=(7, 1)).astype(float))
    data["C"] = pd.DataFrame(np.random.default_rng(6).integers(-4, 5, size=(n, p)).astype(float))
    data["S"] = pd.DataFrame(np.random.default_rng(7).integers(-4, 5, size=(max(n - 1, 1), p)).astype(float))

    def call(d, scorers, op, X, pcols):
        _set_p(scorers, pcols)
        if op == "fit":
            d.fit(X)
        elif op == "predict":
            d.predict(X)
        elif op == "transform":
            d.transform(X)
        elif op == "transform_scores":
            try:
                d.transform_scores(X)
            except NotImplementedError:
                pass

    def run(eng, acc):
        snapshot = [v for v in A.ravel()]
        for hname, ops, train in HISTORIES:
            if {"A": "same_train", "B": "other_train", "C": "shape_train"}[train] != group:
                continue
            inf = dict(info, history=hname, ops=ops)
            try:
                d, scorers = build(det, wrap=wrap)
                other, _ = build(det, scorers=scorers, wrap=wrap)       # a second detector sharing the scorer objects
                altd, alts = build(det, alt=True, wrap=wrap)            # a differently configured instance with its own scorers
                params0 = {k: v for k, v in d.get_params(deep=False).items()}
                obs = None
                for step in ops:
                    parts = step.split()
                    tgt = other if parts[0] == "OTHER" else (altd if parts[0] == "ALT" else d)
                    op, name = parts[-2], parts[-1]
                    X = data[name]
                    if parts[0] == "OBS":
                        _set_p(scorers, X.shape[1])
                        obs = observe(d, X, op)
                    elif parts[0] == "ALT":
                        try:
                            call(tgt, alts, op, X, X.shape[1])
                        except ValueError:
                            pass        # the differently configured instance does not accept data this short: it then did nothing
                    elif name == "S":
                        try:
                            call(tgt, scorers, op, X, X.shape[1])
                        except ValueError:
                            pass        # shorter than the configuration's minimum length: a documented refusal
                    else:
                        call(tgt, scorers, op, X, X.shape[1])
                got_params = fitted_params(d)
                # reference: a fresh object fitted on the same training data, then the observed call
                r, rs = build(det, wrap=wrap)
                _set_p(rs, data[train].shape[1])
                r.fit(data[train])
                _set_p(rs, data["A"].shape[1])
                ref = observe(r, data["A"], ops[-1].split()[-2])
                acc.concrete("history.same_output_as_fresh_object", same_obs(obs, ref), dict(inf, got=str(obs)[:200], want=str(ref)[:200]), eng=eng)
                acc.concrete("history.same_fitted_parameters_as_fresh_object", same_params(got_params, fitted_params(r)), inf, eng=eng)
                p1 = d.get_params(deep=False)
                acc.concrete("history.hyper_parameters_unchanged", set(p1) == set(params0) and all(p1[k] is params0[k] for k in p1), inf, eng=eng)
                # clone and set_params configured objects behave like fresh ones
                c = d.clone()
                cs = [v for v in c.get_params(deep=False).values() if hasattr(v, "p")] or []
                _clone_scorers = _all_table_scorers(c)
                _set_p(_clone_scorers, data[train].shape[1])
                c.fit(data[train])
                _set_p(_clone_scorers, data["A"].shape[1])
                acc.concrete("history.clone_behaves_like_fresh_object", same_obs(observe(c, data["A"], ops[-1].split()[-2]), ref), inf, eng=eng)
            except Exception as ex:
                acc.concrete("history.runs", False, dict(inf, exception=f"{type(ex).__name__}: {ex}"[:200]), eng=eng)
        # set_params(**get_params()) of the reference configuration on a differently configured instance
        try:
            if group != "same_train":
                raise StopIteration
            r, rs = build(det, wrap=wrap)
            _set_p(rs, p)
            r.fit(data["A"])
            ref = observe(r, data["A"], "predict")
            alt, _ = build(det, alt=True, wrap=wrap)
            fresh, fs = build(det, wrap=wrap)
            alt.set_params(**fresh.get_params(deep=False))
            sc = _all_table_scorers(alt)
            _set_p(sc, p)
            alt.fit(data["A"])
            acc.concrete("set_params.configured_object_behaves_like_fresh_object", same_obs(observe(alt, data["A"], "predict"), ref),
                         dict(info, history="set_params"), eng=eng)
        except StopIteration:
            pass
        except Exception as ex:
            acc.concrete("history.runs", False, dict(info, history="set_params", exception=f"{type(ex).__name__}: {ex}"[:200]), eng=eng)
        # nested set_params (component__param) on a detector built from a cost == a fresh detector built with that value
        try:
            if not wrap or group != "nested":
                raise StopIteration
            d, sc = build(det, wrap=True)
            if det in ("CAPA", "MVCAPA"):
                d.set_params(collective_saving__param=1.0, point_saving__param=1.0)
                fresh_sc = [TCost(param=1.0, any_p=True), TCost(param=1.0, tag="q", any_p=True)]
            else:
                key = {"MovingWindow": "change_score", "SBS": "change_score", "CBS": "anomaly_score"}[det]
                d.set_params(**{key + "__tag": "Z"})
                fresh_sc = [TCost(tag="Z", any_p=True)]
            d.fit(data["A"])
            got = observe(d, data["A"], "predict")
            r, _ = build(det, scorers=fresh_sc, wrap=True)
            r.fit(data["A"])
            acc.concrete("set_params.nested_component_parameter_takes_effect", same_obs(got, observe(r, data["A"], "predict")),
                         dict(info, history="nested_set_params", got=str(got)[:160]), eng=eng)
        except StopIteration:
            pass
        except Exception as ex:
            acc.concrete("history.runs", False, dict(info, history="nested_set_params", exception=f"{type(ex).__name__}: {ex}"[:200]), eng=eng)
        # the caller reuses one buffer: fit(M); M[:] = A in place; predict(M)  ==  fresh object fitted on what M held
        # at fit time, asked about A.  Thresholds are tuned at fit where the detector supports it.
        try:
            if group != "inplace":
                raise StopIteration
            r, rs = build(det, wrap=wrap, tuned=True)
            _set_p(rs, p)
            r.fit(data["C"])
            ref = (observe(r, data["A"], "predict"), observe(r, data["A"], "transform_scores"))
            for kind in ("frame", "ndarray"):
                inf = dict(info, history="inplace", container=kind)
                d, sc = build(det, wrap=wrap, tuned=True)
                C0 = data["C"].values.astype(object)
                M = pd.DataFrame(C0.copy()) if kind == "frame" else C0.copy()
                _set_p(sc, p)
                d.fit(M)
                if kind == "frame":
                    M.iloc[:, :] = A.copy()
                else:
                    M[...] = A
                got = (observe(d, M, "predict"), observe(d, M, "transform_scores"))
                acc.concrete("inplace.reused_buffer_same_as_fresh_object", same_obs(got[0], ref[0]) and same_obs(got[1], ref[1]),
                             dict(inf, got=str(got[0])[:160], want=str(ref[0])[:160]), eng=eng)
        except StopIteration:
            pass
        except Exception as ex:
            acc.concrete("history.runs", False, dict(info, history="inplace", exception=f"{type(ex).__name__}: {ex}"[:200]), eng=eng)
        # update(new pandas data) == fit(old and new combined)
        try:
            if group != "update":
                raise StopIteration
            A1 = pd.DataFrame(rngB.integers(-4, 5, size=(5, p)).astype(float))
            Anew = pd.DataFrame(A.copy(), index=pd.RangeIndex(5, 5 + n))
            u, us = build(det, wrap=wrap)
            u.fit(A1)
            u.update(Anew)
            comb = pd.concat([A1.astype(object), Anew])
            f, fsc = build(det, wrap=wrap)
            f.fit(comb)
            acc.concrete("update.same_fitted_parameters_as_fit_on_combined_data", same_params(fitted_params(u), fitted_params(f)), dict(info, history="update"), eng=eng)
            Aobs = data["A"]
            acc.concrete("update.same_predictions_as_fit_on_combined_data", same_obs(observe(u, Aobs, "predict"), observe(f, Aobs, "predict")), dict(info, history="update"), eng=eng)
        except StopIteration:
            pass
        except Exception as ex:
            acc.concrete("history.runs", False, dict(info, history="update", exception=f"{type(ex).__name__}: {ex}"[:200]), eng=eng)
        acc.concrete("caller_data_not_modified", all(a is b for a, b in zip(A.ravel(), snapshot)) and all(a is b for a, b in zip(data["A"].values.ravel(), snapshot)), info, eng=eng)
        acc.sample(dict(info, histories=[h[0] for h in HISTORIES] + ["set_params", "update"]))

    return Harness(run, base, name=f"det {info}")


def _params_of(d):
    """the parameter values of every table cost reachable from the detector's private scorers"""
    out = []
    seen = set()

    def walk(o, depth=0):
        if id(o) in seen or depth > 3:
            return
        seen.add(id(o))
        if isinstance(o, TableCost):
            out.append((o.tag, o.param))
        if hasattr(o, "__dict__"):
            for k, v in vars(o).items():
                if k.startswith("_") and hasattr(v, "get_params"):
                    walk(v, depth + 1)
                elif hasattr(v, "get_params") and depth > 0:
                    walk(v, depth + 1)
    walk(d)
    return sorted(map(str, out))


def _all_table_scorers(d):
    out = []
    for v in vars(d).values():
        if hasattr(v, "p") and hasattr(v, "_table_eval"):
            out.append(v)
        elif hasattr(v, "get_params") and not isinstance(v, type):
            for w in vars(v).values():
                if hasattr(w, "p") and hasattr(w, "_table_eval"):
                    out.append(w)
    return out


def make_scorers(n, p):
    A = sym_matrix(n, p)
    info = dict(part="scorer", n=n, p=p)

    def run(eng, acc):
        from skchange.anomaly_scores import L2Saving, LocalAnomalyScore, Saving
        from skchange.change_scores import CUSUM, ChangeScore
        from skchange.costs import GaussianCovCost, GaussianVarCost, L2Cost
        rng = np.random.default_rng(9)
        B = rng.integers(-4, 5, size=(6, p)).astype(float)
        B2 = rng.integers(-4, 5, size=(7, 3 - p)).astype(float)
        zoo = {"L2Cost": (L2Cost, [[0, n], [1, 3]]), "L2Cost(mu)": (lambda: L2Cost(1.5), [[0, n]]), "GaussianVarCost": (GaussianVarCost, [[0, n]]),
               "CUSUM": (CUSUM, [[0, 1, n], [1, 2, 3]]), "ChangeScore(L2Cost)": (lambda: ChangeScore(L2Cost()), [[0, 2, n]]),
               "Saving(L2Cost)": (lambda: Saving(L2Cost(0.0)), [[1, n]]), "L2Saving": (L2Saving, [[0, n], [2, 3]]),
               "LocalAnomalyScore(L2Cost)": (lambda: LocalAnomalyScore(L2Cost()), [[0, 1, 3, n], [0, 2, 3, n]])}
        snapshot = [v for v in A.ravel()]
        for name, (mk, cuts) in zoo.items():
            k = len(cuts[0])
            cutsB = {2: [[0, 6], [2, 5]], 3: [[0, 3, 6]], 4: [[0, 2, 4, 6]]}[k]
            with proxy.settings(exact=(name == "CUSUM")):
                ref = mk().fit(A).evaluate(np.array(cuts))
                inf = dict(info, scorer=name)
                # earlier fits / evaluates on other data (other length, other number of columns)
                s = mk()
                s.fit(B)
                s.evaluate(np.array(cutsB))
                s.fit(B2)
                s.evaluate(np.array(cutsB))
                s.fit(A)
                s.evaluate(np.array([cuts[-1]]))
                got = s.evaluate(np.array(cuts))
                _cmp(eng, acc, "scorer.history_same_as_fresh", got, ref, inf)
                # evaluate is repeatable and order independent
                got2 = s.evaluate(np.array(cuts[::-1]))[::-1]
                _cmp(eng, acc, "scorer.evaluate_repeatable", got2, ref, inf)
                # earlier fit / evaluate of the SAME cuts on another dataset of the same shape
                Cc = np.random.default_rng(6).integers(-4, 5, size=(n, p)).astype(float)
                s3 = mk()
                s3.fit(Cc)
                s3.evaluate(np.array(cuts))
                s3.fit(A)
                _cmp(eng, acc, "scorer.same_cuts_on_same_shape_data_before", s3.evaluate(np.array(cuts)), ref, inf)
                # the caller reuses one buffer: fit(buf); buf[:] = A; fit(buf)
                buf = Cc.astype(object).copy()
                s4 = mk()
                s4.fit(buf)
                s4.evaluate(np.array(cuts))
                buf[...] = A
                s4.fit(buf)
                _cmp(eng, acc, "scorer.refit_on_reused_buffer", s4.evaluate(np.array(cuts)), ref, inf)
                # refit on a view of the data the scorer already holds (time reversal, column reversal)
                for vname, view in (("reversed_rows", A[::-1]), ("reversed_columns", A[:, ::-1])):
                    s5 = mk()
                    s5.fit(A)
                    s5.evaluate(np.array(cuts))
                    s5.fit(view)
                    _cmp(eng, acc, "scorer.refit_on_view_of_fitted_data", s5.evaluate(np.array(cuts)), mk().fit(view.copy()).evaluate(np.array(cuts)),
                         dict(inf, view=vname))
                # clone / set_params
                c = s.clone().fit(A)
                _cmp(eng, acc, "scorer.clone_same_as_fresh", c.evaluate(np.array(cuts)), ref, inf)
                c2 = mk().set_params(**mk().get_params(deep=False)).fit(A)
                _cmp(eng, acc, "scorer.set_params_same_as_fresh", c2.evaluate(np.array(cuts)), ref, inf)
        acc.concrete("caller_data_not_modified", all(a is b for a, b in zip(A.ravel(), snapshot)), info, eng=eng)
        acc.sample(dict(info, scorers=list(zoo)))

    return Harness(run, [], sliced=True, timeout_ms=10000, name=f"scorers {info}")


def _cmp(eng, acc, name, got, ref, info):
    got, ref = np.asarray(got), np.asarray(ref)
    ok = got.shape == ref.shape and all(z3.simplify(rv(a) - rv(b)).eq(z3.RealVal(0)) or eng.valid(rv(a) == rv(b))[0] is True
                                        for a, b in zip(got.ravel(), ref.ravel()))
    acc.concrete(name, ok, dict(info, shape=got.shape), eng=eng)


def jobs(tier):
    M = "harness.c10"
    out = []
    if tier == "quick":
        grid = [("PELT", 4, 1), ("MovingWindow", 4, 1), ("MovingWindow", 3, 2), ("SBS", 4, 1), ("CBS", 5, 1), ("CAPA", 3, 1), ("MVCAPA", 2, 2),
                ("StatThresholdAnomaliser", 4, 1)]
        sc = [(4, 1), (4, 2)]
    else:
        grid = [("PELT", 5, 1), ("PELT", 4, 2), ("MovingWindow", 5, 1), ("MovingWindow", 4, 2), ("SBS", 4, 1), ("SBS", 4, 2), ("CBS", 5, 1),
                ("CAPA", 4, 1), ("CAPA", 3, 2), ("MVCAPA", 2, 2), ("MVCAPA", 3, 1), ("StatThresholdAnomaliser", 5, 1)]
        sc = [(4, 1), (5, 2)]
    for (det, n, p) in grid:
        for group in ("same_train", "other_train", "shape_train", "inplace", "update"):
            out.append(Job(M, "make_det", dict(det=det, n=n, p=p, group=group), split=True))
    for (det, n) in ([("MovingWindow", 4), ("SBS", 3), ("CAPA", 3)] if tier == "quick" else [("MovingWindow", 5), ("SBS", 4), ("CBS", 4), ("CAPA", 3), ("MVCAPA", 2)]):
        out.append(Job(M, "make_det", dict(det=det, n=n, p=1, group="same_train", wrap=True), split=True))
        out.append(Job(M, "make_det", dict(det=det, n=n, p=1, group="nested", wrap=True), split=True))
    for (n, p) in sc:
        out.append(Job(M, "make_scorers", dict(n=n, p=p)))
    return out


def replay(cx):
    """Concrete re-run of the failing history with a numeric table for dataset A."""
    info = cx.get("info") or {}
    model = cx.get("model") or {}
    ob = cx["ob"]
    part = info.get("part")
    env = {}
    for k, v in model.items():
        try:
            env[k] = float(Fraction(v))
        except Exception:
            pass
    if part == "caller_buffers":
        badc = _caller_data_problems()
        return dict(reproduced=bool(badc), key="caller_buffers", what="; ".join(badc[:3])[:700])
    n, p = info["n"], info["p"]
    if part == "scorer":
        from skchange.anomaly_scores import L2Saving, LocalAnomalyScore, Saving
        from skchange.change_scores import CUSUM, ChangeScore
        from skchange.costs import GaussianVarCost, L2Cost
        zoo = {"L2Cost": (L2Cost, [[0, n], [1, 3]]), "L2Cost(mu)": (lambda: L2Cost(1.5), [[0, n]]), "GaussianVarCost": (GaussianVarCost, [[0, n]]),
               "CUSUM": (CUSUM, [[0, 1, n], [1, 2, 3]]), "ChangeScore(L2Cost)": (lambda: ChangeScore(L2Cost()), [[0, 2, n]]),
               "Saving(L2Cost)": (lambda: Saving(L2Cost(0.0)), [[1, n]]), "L2Saving": (L2Saving, [[0, n], [2, 3]]),
               "LocalAnomalyScore(L2Cost)": (lambda: LocalAnomalyScore(L2Cost()), [[0, 1, 3, n], [0, 2, 3, n]])}
        mk, cuts = zoo[info["scorer"]]
        rng = np.random.default_rng(9)
        B = rng.integers(-4, 5, size=(6, p)).astype(float)
        B2 = rng.integers(-4, 5, size=(7, 3 - p)).astype(float)
        Af = np.array([[env.get(f"x_{i}_{j}", float((3 * i + 5 * j) % 7) - 2.5) for j in range(p)] for i in range(n)])
        k = len(cuts[0])
        cutsB = {2: [[0, 6], [2, 5]], 3: [[0, 3, 6]], 4: [[0, 2, 4, 6]]}[k]
        with proxy.native():
            ref = mk().fit(Af).evaluate(np.array(cuts))
            s = mk()
            s.fit(B)
            s.evaluate(np.array(cutsB))
            s.fit(B2)
            s.evaluate(np.array(cutsB))
            s.fit(Af)
            s.evaluate(np.array([cuts[-1]]))
            got = s.evaluate(np.array(cuts))
            got2 = s.evaluate(np.array(cuts[::-1]))[::-1]
            c = s.clone().fit(Af).evaluate(np.array(cuts))
            Cc = np.random.default_rng(6).integers(-4, 5, size=(n, p)).astype(float)
            s3 = mk().fit(Cc)
            s3.evaluate(np.array(cuts))
            g3 = s3.fit(Af).evaluate(np.array(cuts))
            buf = Cc.copy()
            s4 = mk().fit(buf)
            s4.evaluate(np.array(cuts))
            buf[...] = Af
            g4 = s4.fit(buf).evaluate(np.array(cuts))
            views = []
            for vname, view in (("reversed rows", Af[::-1]), ("reversed columns", Af[:, ::-1])):
                s5 = mk().fit(Af)
                s5.evaluate(np.array(cuts))
                views.append((vname, s5.fit(view).evaluate(np.array(cuts)), mk().fit(view.copy()).evaluate(np.array(cuts))))
        bad = []
        for nm, g in (("after a history of other fits", got), ("evaluated in reverse order", got2), ("clone", c),
                      ("after the same cuts on same-shape data", g3), ("refitted on a reused buffer", g4)):
            if g.shape != ref.shape or not np.allclose(g, ref):
                bad.append(f"{info['scorer']} {nm}: {np.asarray(g).tolist()} vs fresh {ref.tolist()}")
        for vname, g, w in views:
            if g.shape != w.shape or not np.allclose(g, w):
                bad.append(f"{info['scorer']} refitted on a view ({vname}) of the data it holds: {np.asarray(g).tolist()} vs fresh {w.tolist()}")
        return dict(reproduced=bool(bad), key=f"{ob}|{info['scorer']}", what="; ".join(bad)[:600])
    # detector histories: re-run symbolically-free by giving dataset A a numeric identity (tagged scorers
    # answer with fixed numbers for concrete data; A is distinguished from B by its length)
    det, hname = info["det"], info.get("history")
    rngB = np.random.default_rng(5)
    Af = pd.DataFrame(np.array([[float((3 * i + 5 * j) % 7) - 2.5 for j in range(p)] for i in range(n)]))
    data = {"A": Af, "B": pd.DataFrame(rngB.integers(-4, 5, size=(6, p)).astype(float)),
            "B2": pd.DataFrame(rngB.integers(-4, 5, size=(7, 3 - p if (det != "StatThresholdAnomaliser" and not info.get("wrap")) else 1)).astype(float))}
    data["C"] = pd.DataFrame(np.random.default_rng(6).integers(-4, 5, size=(n, p)).astype(float))
    data["S"] = pd.DataFrame(np.random.default_rng(7).integers(-4, 5, size=(max(n - 1, 1), p)).astype(float))
    bad = []
    # dataset A answers with the solver model's table values (so the replay walks the path the solver found)
    _Tagged.replay_A = (Af.values.astype(float), {k: v for k, v in env.items()})

    def nobs(o):
        return str(o)
    with proxy.native():
        import harness.c11 as c11
        old = c11._val_stat
        c11._val_stat = lambda values: float(np.mean(values))
        try:
            hist = [h for h in HISTORIES if h[0] == hname]
            if hist:
                _, ops, train = hist[0]
                d, scorers = build(det, scale=0.3, wrap=info.get('wrap', False))
                other, _ = build(det, scorers=scorers, scale=0.3, wrap=info.get('wrap', False))
                altd, alts = build(det, alt=True, wrap=info.get('wrap', False))
                obs = None
                for step in ops:
                    parts = step.split()
                    tgt = other if parts[0] == "OTHER" else (altd if parts[0] == "ALT" else d)
                    op, name = parts[-2], parts[-1]
                    X = data[name]
                    _set_p(alts if parts[0] == "ALT" else scorers, X.shape[1])
                    if parts[0] == "OBS":
                        obs = observe(d, X, op)
                    elif parts[0] == "ALT" or name == "S":
                        try:
                            getattr(tgt, op)(X)
                        except (ValueError, NotImplementedError):
                            pass
                    elif op == "fit":
                        tgt.fit(X)
                    elif op == "transform_scores":
                        try:
                            tgt.transform_scores(X)
                        except NotImplementedError:
                            pass
                    else:
                        getattr(tgt, op)(X)
                r, rs = build(det, scale=0.3, wrap=info.get('wrap', False))
                _set_p(rs, data[train].shape[1])
                r.fit(data[train])
                _set_p(rs, p)
                ref = observe(r, data["A"], ops[-1].split()[-2])
                if nobs(obs) != nobs(ref):
                    bad.append(f"history {ops}: observed {nobs(obs)[:200]} but a fresh object fitted on {train} gives {nobs(ref)[:200]}")
            elif hname == "nested_set_params":
                d, sc = build(det, scale=0.3, wrap=True)
                if det in ("CAPA", "MVCAPA"):
                    d.set_params(collective_saving__param=1.0, point_saving__param=1.0)
                    fresh_sc = [TCost(param=1.0, any_p=True), TCost(param=1.0, tag="q", any_p=True)]
                else:
                    key = {"MovingWindow": "change_score", "SBS": "change_score", "CBS": "anomaly_score"}[det]
                    d.set_params(**{key + "__tag": "Z"})
                    fresh_sc = [TCost(tag="Z", any_p=True)]
                # numeric tables must depend on the configured parameter for a stale value to show
                got = nobs(observe(d.fit(data["A"]), data["A"], "transform_scores")) + nobs(_params_of(d))
                r, _ = build(det, scorers=fresh_sc, scale=0.3, wrap=True)
                ref = nobs(observe(r.fit(data["A"]), data["A"], "transform_scores")) + nobs(_params_of(r))
                if got != ref:
                    bad.append(f"after nested set_params the detector computes with {got[:200]}, a fresh detector built with the new value with {ref[:200]}")
            elif hname == "inplace":
                r, rs = build(det, wrap=info.get('wrap', False), tuned=True)
                _set_p(rs, p)
                r.fit(data["C"])
                ref = nobs(observe(r, data["A"], "predict")) + nobs(observe(r, data["A"], "transform_scores"))
                for kind in ("frame", "ndarray"):
                    d, sc = build(det, wrap=info.get('wrap', False), tuned=True)
                    M = data["C"].copy() if kind == "frame" else data["C"].values.copy()
                    _set_p(sc, p)
                    d.fit(M)
                    if kind == "frame":
                        M.iloc[:, :] = Af.values
                    else:
                        M[...] = Af.values
                    got = nobs(observe(d, M, "predict")) + nobs(observe(d, M, "transform_scores"))
                    if got != ref:
                        bad.append(f"fit(M); M[:] = A in place ({kind}); predict / transform_scores(M) gives {got[:200]} but a fresh object fitted on the old "
                                   f"contents and asked about A gives {ref[:200]}")
            elif hname == "update":
                A1 = pd.DataFrame(rngB.integers(-4, 5, size=(5, p)).astype(float))
                Anew = pd.DataFrame(Af.values, index=pd.RangeIndex(5, 5 + n))
                u, us = build(det, scale=0.3, wrap=info.get('wrap', False))
                u.fit(A1)
                u.update(Anew)
                f, fsc = build(det, scale=0.3, wrap=info.get('wrap', False))
                f.fit(pd.concat([A1, Anew]))
                pu = {k: float(v) for k, v in vars(u).items() if k in ("penalty_", "threshold_", "collective_penalty_", "point_penalty_")}
                pf = {k: float(v) for k, v in vars(f).items() if k in ("penalty_", "threshold_", "collective_penalty_", "point_penalty_")}
                if pu != pf:
                    bad.append(f"update: fitted parameters {pu} vs fit on combined data {pf}")
                if nobs(observe(u, Af, "predict")) != nobs(observe(f, Af, "predict")):
                    bad.append("update: predictions differ from fit on the combined data")
            else:
                bad.append(f"{ob} ({hname}) -- no concrete replay; see info {str(info)[:200]}")
                return dict(reproduced=None, key=f"{det}|{hname}|{ob}|{'cost' if info.get('wrap') else 'scorer'}", what=bad[0])
        except Exception as ex:
            bad.append(f"{type(ex).__name__}: {ex}")
        finally:
            c11._val_stat = old
            _Tagged.replay_A = None
    return dict(reproduced=bool(bad), key=f"{det}|{hname}|{ob}|{'cost' if info.get('wrap') else 'scorer'}", what=f"{det} (n={n}, p={p}): " + "; ".join(bad)[:700])


# ---------------------------------------------------------------------------------- caller's float64 buffers (native)

def _caller_data_cases():
    from skchange.anomaly_detectors import CAPA, MVCAPA, CircularBinarySegmentation, StatThresholdAnomaliser
    from skchange.anomaly_scores import L2Saving, LocalAnomalyScore, Saving
    from skchange.change_detectors import PELT, MovingWindow, SeededBinarySegmentation
    from skchange.change_scores import CUSUM, ChangeScore
    from skchange.costs import GaussianCovCost, GaussianVarCost, L2Cost
    mu = np.array([1.5, -2.0])
    S = np.array([[2.0, 0.5], [0.5, 1.5]])
    c2, c3, c4 = np.array([[0, 12], [3, 9]]), np.array([[0, 5, 12], [2, 6, 11]]), np.array([[0, 3, 8, 12]])
    scorers = [("L2Cost", L2Cost, c2), ("L2Cost(mean)", lambda: L2Cost(mu), c2), ("GaussianVarCost", GaussianVarCost, c2),
               ("GaussianVarCost(mean, var)", lambda: GaussianVarCost((mu, np.array([1.0, 2.0]))), c2),
               ("GaussianCovCost", GaussianCovCost, c2), ("GaussianCovCost(mean, cov)", lambda: GaussianCovCost((mu, S)), c2),
               ("CUSUM", CUSUM, c3), ("ChangeScore(GaussianCovCost)", lambda: ChangeScore(GaussianCovCost()), np.array([[0, 5, 12]])),
               ("L2Saving", L2Saving, c2), ("Saving(L2Cost(mean))", lambda: Saving(L2Cost(mu)), c2),
               ("Saving(GaussianCovCost(mean, cov))", lambda: Saving(GaussianCovCost((mu, S))), c2),
               ("LocalAnomalyScore(L2Cost)", lambda: LocalAnomalyScore(L2Cost()), c4),
               ("LocalAnomalyScore(GaussianVarCost(mean, var))", lambda: LocalAnomalyScore(GaussianVarCost((mu, np.array([1.0, 2.0])))), c4)]
    detectors = [("PELT(GaussianVarCost)", lambda: PELT(GaussianVarCost(), min_segment_length=2)),
                 ("MovingWindow(CUSUM)", lambda: MovingWindow(CUSUM(), bandwidth=3)),
                 ("MovingWindow(L2Cost, tuned)", lambda: MovingWindow(L2Cost(), bandwidth=3, threshold_scale=None)),
                 ("SeededBinarySegmentation(CUSUM)", lambda: SeededBinarySegmentation(CUSUM(), min_segment_length=2)),
                 ("CircularBinarySegmentation(L2Cost)", lambda: CircularBinarySegmentation(L2Cost(), min_segment_length=2)),
                 ("CAPA(L2Cost(mean))", lambda: CAPA(L2Cost(mu), L2Cost(mu), min_segment_length=2)),
                 ("CAPA(GaussianCovCost(mean, cov))", lambda: CAPA(GaussianCovCost((mu, S)), L2Cost(mu), min_segment_length=3)),
                 ("MVCAPA(L2Saving)", lambda: MVCAPA(min_segment_length=2)),
                 ("MVCAPA(GaussianVarCost(mean, var))", lambda: MVCAPA(GaussianVarCost((mu, np.array([1.0, 2.0]))), L2Cost(mu), min_segment_length=2))]
    return scorers, detectors


def _caller_data_problems():
    """fit / evaluate / predict / transform / transform_scores / update on the caller's own float64 buffers (C-ordered
    ndarray, single-block DataFrame): afterwards the buffers hold bit-for-bit what they held before.  Object arrays of
    terms (the symbolic runs) cannot alias a float64 work array, so this clause of the property is checked natively."""
    scorers, detectors = _caller_data_cases()
    rng = np.random.default_rng(10)
    base = np.round(rng.normal(size=(12, 2)) * 3, 2) + np.array([1.5, -2.0])
    base[5:8] += 4.0
    bad = []
    with proxy.native():
        for name, mk, cuts in scorers:
            for kind in ("ndarray", "frame"):
                X = base.copy() if kind == "ndarray" else pd.DataFrame(base.copy())
                keep = np.array(base, copy=True)
                try:
                    s = mk().fit(X)
                    s.evaluate(cuts)
                    s.evaluate(cuts)
                except Exception as ex:
                    bad.append(f"{name} on a {kind} raised {type(ex).__name__}: {ex}"[:160])
                    continue
                now = X if kind == "ndarray" else X.values
                if not np.array_equal(now, keep):
                    bad.append(f"{name}: fit / evaluate changed the caller's float64 {kind} (max abs change {np.abs(now - keep).max():.3g})")
        for name, mk in detectors:
            for kind in ("ndarray", "frame"):
                X = base.copy() if kind == "ndarray" else pd.DataFrame(base.copy())
                keep = np.array(base, copy=True)
                try:
                    d = mk().fit(X)
                    d.predict(X)
                    d.transform(X)
                    try:
                        d.transform_scores(X)
                    except NotImplementedError:
                        pass
                except Exception as ex:
                    bad.append(f"{name} on a {kind} raised {type(ex).__name__}: {ex}"[:160])
                    continue
                now = X if kind == "ndarray" else X.values
                if not np.array_equal(now, keep):
                    bad.append(f"{name}: fit / predict / transform changed the caller's float64 {kind} (max abs change {np.abs(now - keep).max():.3g})")
    return bad


def extra(tier, seed):
    acc = Acc()
    bad = _caller_data_problems()
    acc.concrete("caller_float64_buffers_not_modified", not bad, dict(part="caller_buffers", first=(bad or [""])[0][:300], n_problems=len(bad)))
    if not bad:
        acc.inc("translator_ok")
    return acc
