"""C18 -- data generators are reproducible and place segments exactly where requested."""
from __future__ import annotations

from fractions import Fraction

import numpy as np
import pandas as pd
import z3

from symnp import proxy
from symnp.core import Engine, SymInt, SymReal, rv, sym_sqrt
from symnp.drive import Acc, Harness, Job

PROPERTY = "C18"
FUNCTIONS = [
    "skchange.datasets.generate:generate_changing_data",
    "skchange.datasets.generate:generate_anomalous_data",
    "skchange.datasets.generate:generate_alternating_data",
    "skchange.datasets.generate:add_linspace_outliers",
]
BOUNDS = {
    "quick": "n<=5, p in {1,2}, up to 2 changepoints / anomalies with positions symbolic in [-1, n+1], symbolic means, "
             "variances >= 0 and standard-normal draws; alternating data: <=3 segments of length <=2; outliers: n<=6, p<=2, "
             "n_outliers<=n",
    "thorough": "n<=8, p<=3, up to 3 changepoints / 3 anomalies",
}
STUBS = ["scipy.stats.multivariate_normal.rvs: arbitrary reals Z (one variable per entry) for a given (seed, n, p), with "
         "scipy's squeeze of the output shape; the same arguments give the same Z (the seed contract); scipy's real "
         "determinism is confirmed concretely", "np.sqrt: fresh r >= 0 with r*r == variance"]
ASSUMPTIONS = ["valid changepoints: 0 <= c1 < ... < ck <= n-1; valid anomalies: 0 <= start < end <= n, pairwise disjoint, "
               "listed in any order; positions < 0 or > n must raise ValueError; other inconsistent inputs (unsorted changepoints, overlapping anomalies) are not "
               "constrained by the property and any outcome is accepted"]
OUTSIDE = ["the distribution of the numbers (statistics, not semantics)", "sizes beyond the bounds"]


class RvsStub:
    calls = 0
    received = []       # the random_state of every draw (must be the caller's seed: the seed contract)

    @staticmethod
    def rvs(mean, cov, size=1, random_state=None):
        RvsStub.calls += 1
        RvsStub.received.append(random_state)
        if isinstance(random_state, SymInt):
            random_state = "S"
        p = len(np.atleast_1d(mean))
        Z = np.empty((size, p), dtype=object)
        for i in range(size):
            for j in range(p):
                Z[i, j] = SymReal(z3.Real(f"z_{random_state}_{size}_{p}_{i}_{j}"))
        return np.squeeze(Z) if Z.size > 1 else Z.reshape(())[()]


def zvar(seed, n, p, i, j):
    return z3.Real(f"z_{'S' if isinstance(seed, SymInt) else seed}_{n}_{p}_{i}_{j}")


def seed_obligation(eng, acc, seed, info):
    """every draw was seeded with exactly the seed the caller gave"""
    rec, RvsStub.received = RvsStub.received, []
    ok = bool(rec)
    for r in rec:
        if r is None:
            ok = False
        elif isinstance(seed, SymInt):
            ok = ok and isinstance(r, (SymInt, int, np.integer)) and eng.valid((r.t if isinstance(r, SymInt) else z3.IntVal(int(r))) == seed.t)[0] is True
        else:
            ok = ok and not isinstance(r, SymInt) and r == seed
    acc.concrete("rng_is_seeded_with_the_given_seed", ok, dict(info, received=[str(r) for r in rec]), eng=eng)


class stubbed:
    def __enter__(self):
        import skchange.datasets.generate as gen
        self.gen = gen
        self.old = gen.multivariate_normal
        gen.multivariate_normal = RvsStub
        return gen

    def __exit__(self, *a):
        self.gen.multivariate_normal = self.old


def _frame_ok(acc, eng, df, n, p, info):
    ok = isinstance(df, pd.DataFrame) and df.shape == (n, p) and list(df.index) == list(range(n))
    acc.concrete("shape_and_index", ok, dict(info, shape=getattr(df, "shape", None)), eng=eng)
    return ok


def make_changing(n, p, k, percol=False):
    """generate_changing_data with k symbolic changepoints."""
    cps = [z3.Int(f"cp{i}") for i in range(k)]
    mus = [[z3.Real(f"mu_{s}_{j}") for j in range(p if percol else 1)] for s in range(k + 1)]
    vs = [[z3.Real(f"var_{s}_{j}") for j in range(p if percol else 1)] for s in range(k + 1)]
    base = [z3.And(c >= -1, c <= n + 1) for c in cps] + [v >= 0 for row in vs for v in row]
    info = dict(gen="changing", n=n, p=p, k=k, percol=percol)
    seed = SymInt(z3.Int("seed"))
    base = base + [z3.Int("seed") >= 0, z3.Int("seed") <= 3]

    def run(eng, acc):
        with stubbed() as gen:
            if p > 1 and not percol:
                means = [np.array([SymReal(m[0])] * p, dtype=object) for m in mus]
                variances = [np.array([SymReal(v[0])] * p, dtype=object) for v in vs]
            elif p > 1:
                means = [np.array([SymReal(x) for x in m], dtype=object) for m in mus]
                variances = [np.array([SymReal(x) for x in v], dtype=object) for v in vs]
            else:
                means = [SymReal(m[0]) for m in mus]
                variances = [SymReal(v[0]) for v in vs]
            args = dict(n=n, changepoints=[SymInt(c) for c in cps], means=means, variances=variances, random_state=seed)
            outside = z3.Or([z3.Or(c < 0, c > n) for c in cps]) if cps else z3.BoolVal(False)
            valid = z3.And([c >= 0 for c in cps] + [c <= n - 1 for c in cps] + [a < b for a, b in zip(cps[:-1], cps[1:])])
            RvsStub.received = []
            try:
                df = gen.generate_changing_data(**args)
            except ValueError:
                acc.inc("paths_raising_ValueError")
                acc.oblige(eng, "changing.no_valid_positions_rejected", z3.Not(valid), info)
                return
            except Exception as ex:
                acc.concrete("changing.only_ValueError", False, dict(info, exception=f"{type(ex).__name__}: {ex}"[:160]), eng=eng)
                return
            acc.oblige(eng, "changing.positions_outside_the_data_rejected", z3.Not(outside), info)
            seed_obligation(eng, acc, seed, info)
            ok, _ = eng.valid(valid)
            if ok is not True:
                acc.inc("paths_with_unconstrained_inputs")
                return
            m = eng.get_model()
            cc = [m.eval(c, model_completion=True).as_long() for c in cps]
            if not _frame_ok(acc, eng, df, n, p, info):
                return
            b = [0] + cc + [n]
            for s in range(k + 1):
                for i in range(b[s], b[s + 1]):
                    for j in range(p):
                        mu = mus[s][j if percol else 0]
                        sd = sym_sqrt(SymReal(vs[s][j if percol else 0])).t
                        acc.oblige(eng, "changing.entry_is_mean_plus_sd_times_z", rv(df.iloc[i, j]) == mu + sd * zvar(seed, n, p, i, j),
                                   dict(info, cps=cc, row=i, col=j, segment=s))
            df2 = gen.generate_changing_data(**dict(args, changepoints=list(cc)))
            same = all(z3.simplify(rv(df.iloc[i, j]) - rv(df2.iloc[i, j])).eq(z3.RealVal(0)) or eng.valid(rv(df.iloc[i, j]) == rv(df2.iloc[i, j]))[0] is True
                       for i in range(n) for j in range(p))
            acc.concrete("changing.same_arguments_same_output", same, dict(info, cps=cc), eng=eng)
            acc.sample(dict(info, cps=cc, entry=str(df.iloc[n - 1, 0])[:120]))

    return Harness(run, base, sliced=True, timeout_ms=10000, name=f"changing {info}")


def make_anomalous(n, p, k):
    ss = [z3.Int(f"s{i}") for i in range(k)]
    es = [z3.Int(f"e{i}") for i in range(k)]
    # one mean / variance per anomaly and per column (every anomaly keeps the parameters it was *listed* with,
    # in whatever order the disjoint anomalies are listed: seed C18-c)
    mus = [[z3.Real(f"mu_{s}_{j}") for j in range(p)] for s in range(k)]
    vs = [[z3.Real(f"var_{s}_{j}") for j in range(p)] for s in range(k)]
    base = [z3.And(c >= -1, c <= n + 1) for c in ss + es] + [v >= 0 for row in vs for v in row]
    info = dict(gen="anomalous", n=n, p=p, k=k)
    seed = 0

    def run(eng, acc):
        with stubbed() as gen:
            if p > 1:
                means = [np.array([SymReal(x) for x in m], dtype=object) for m in mus]
                variances = [np.array([SymReal(x) for x in v], dtype=object) for v in vs]
            else:
                means = [SymReal(m[0]) for m in mus]
                variances = [SymReal(v[0]) for v in vs]
            anomalies = [(SymInt(a), SymInt(b)) for a, b in zip(ss, es)]
            args = dict(n=n, anomalies=anomalies if k != 1 else anomalies[0], means=means, variances=variances, random_state=seed)
            outside = z3.Or([z3.Or(a < 0, b > n) for a, b in zip(ss, es)])
            empty = z3.Or([b <= a for a, b in zip(ss, es)])
            valid = z3.And([z3.And(a >= 0, a < b, b <= n) for a, b in zip(ss, es)]
                           + [z3.Or(es[i] <= ss[j], es[j] <= ss[i]) for i in range(k) for j in range(i + 1, k)])   # disjoint, any order
            RvsStub.received = []
            try:
                df = gen.generate_anomalous_data(**args)
            except ValueError:
                acc.inc("paths_raising_ValueError")
                acc.oblige(eng, "anomalous.no_valid_anomalies_rejected", z3.Not(valid), info)
                return
            except Exception as ex:
                acc.concrete("anomalous.only_ValueError", False, dict(info, exception=f"{type(ex).__name__}: {ex}"[:160]), eng=eng)
                return
            acc.oblige(eng, "anomalous.positions_outside_the_data_rejected", z3.Not(outside), info)
            acc.oblige(eng, "anomalous.empty_anomalies_rejected", z3.Not(empty), info)
            seed_obligation(eng, acc, seed, info)
            ok, _ = eng.valid(valid)
            if ok is not True:
                acc.inc("paths_with_unconstrained_inputs")
                return
            m = eng.get_model()
            aa = [(m.eval(a, model_completion=True).as_long(), m.eval(b, model_completion=True).as_long()) for a, b in zip(ss, es)]
            if not _frame_ok(acc, eng, df, n, p, info):
                return
            for i in range(n):
                seg = next((s for s, (a, b) in enumerate(aa) if a <= i < b), None)
                for j in range(p):
                    z = zvar(seed, n, p, i, j)
                    want = z if seg is None else mus[seg][j] + sym_sqrt(SymReal(vs[seg][j])).t * z
                    acc.oblige(eng, "anomalous.entry_is_mean_plus_sd_times_z_inside_and_z_outside", rv(df.iloc[i, j]) == want,
                               dict(info, anomalies=aa, row=i, col=j))
            acc.sample(dict(info, anomalies=aa))

    return Harness(run, base, sliced=True, timeout_ms=10000, name=f"anomalous {info}")


def real_rng_cases(g, seed):
    """Real scipy / NumPy draws (no stub): (name, output, expected) with expected = mean + sqrt(variance) * Z0 on each
    requested segment and Z0 elsewhere, Z0 being the same generator's output for zero means, unit variances and the
    same seed -- the property's own formulation.  Per-column parameters are neither equal nor monotone."""
    out = []
    mu = [np.array([0.0, 1.0]), np.array([2.0, -3.0]), np.array([-1.0, 0.5])]
    va = [np.array([1.0, 9.0]), np.array([4.0, 0.25]), np.array([2.0, 2.0])]
    a = g.generate_changing_data(7, [2, 5], mu, va, random_state=seed)
    z = g.generate_changing_data(7, [2, 5], [np.zeros(2)] * 3, [np.ones(2)] * 3, random_state=seed).values
    want = z.copy()
    for (s_, e_), m_, v_ in zip(((0, 2), (2, 5), (5, 7)), mu, va):
        want[s_:e_] = m_ + np.sqrt(v_) * z[s_:e_]
    out.append(("generate_changing_data(7, [2, 5], per-column means and variances)", a.values, want))
    an = [(4, 6), (1, 3)]
    mu3 = [np.array([5.0, -2.0, 1.0]), np.array([-3.0, 4.0, 0.0])]
    va3 = [np.array([0.25, 9.0, 1.0]), np.array([4.0, 1.0, 16.0])]
    b = g.generate_anomalous_data(8, an, mu3, va3, random_state=seed)
    z = g.generate_anomalous_data(8, an, [np.zeros(3)] * 2, [np.ones(3)] * 2, random_state=seed).values
    want = z.copy()
    for (s_, e_), m_, v_ in zip(an, mu3, va3):
        want[s_:e_] = m_ + np.sqrt(v_) * z[s_:e_]
    out.append(("generate_anomalous_data(8, [(4, 6), (1, 3)], per-column means and variances)", b.values, want))
    c = g.generate_alternating_data(3, 2, p=4, mean=1.5, variance=4.0, affected_proportion=0.5, random_state=seed)
    z = g.generate_alternating_data(3, 2, p=4, mean=0.0, variance=1.0, affected_proportion=0.5, random_state=seed).values
    want = z.copy()
    want[2:4, :2] = 1.5 + 2.0 * z[2:4, :2]
    out.append(("generate_alternating_data(3, 2, p=4, mean=1.5, variance=4, affected_proportion=0.5)", c.values, want))
    return out


def make_misc(nmax, pmax):
    """Alternating data, outliers, argument-count validation and the real seed contract."""
    mu, var = z3.Real("mu"), z3.Real("var")
    base = [var >= 0]
    info = dict(gen="misc")

    def run(eng, acc):
        with stubbed() as gen:
            seed = 0
            for nseg in (1, 2, 3):
                for L in (1, 2):
                    for p in range(1, pmax + 1):
                        for prop in (1.0, 0.5):
                            n = nseg * L
                            inf = dict(info, part="alternating", n_segments=nseg, segment_length=L, p=p, affected_proportion=prop)
                            try:
                                df = gen.generate_alternating_data(nseg, L, p=p, mean=SymReal(mu), variance=SymReal(var),
                                                                   affected_proportion=prop, random_state=seed)
                            except Exception as ex:
                                acc.concrete("alternating.runs", False, dict(inf, exception=f"{type(ex).__name__}: {ex}"[:160]), eng=eng)
                                continue
                            if not _frame_ok(acc, eng, df, n, p, inf):
                                continue
                            naff = int(np.round(p * prop))
                            sd = sym_sqrt(SymReal(var)).t
                            for i in range(n):
                                for j in range(p):
                                    z = zvar(seed, n, p, i, j)
                                    odd = (i // L) % 2 == 1
                                    want = mu + sd * z if (odd and j < naff) else z
                                    acc.oblige(eng, "alternating.entries", rv(df.iloc[i, j]) == want, dict(inf, row=i, col=j))
            # add_linspace_outliers on a symbolic frame
            osz = z3.Real("outlier_size")
            for n in range(1, nmax + 1):
                for p in range(1, pmax + 1):
                    for k in range(1, n + 1):
                        inf = dict(info, part="outliers", n=n, p=p, n_outliers=k)
                        X = np.empty((n, p), dtype=object)
                        for i in range(n):
                            for j in range(p):
                                X[i, j] = SymReal(z3.Real(f"d_{i}_{j}"))
                        try:
                            df = gen.add_linspace_outliers(pd.DataFrame(X.copy()), k, SymReal(osz))
                        except Exception as ex:
                            acc.concrete("outliers.runs", False, dict(inf, exception=f"{type(ex).__name__}: {ex}"[:160]), eng=eng)
                            continue
                        pos = set(int(v) for v in np.linspace(0, n - 1, k, dtype=int))
                        acc.concrete("outliers.distinct_positions", len(pos) == k, inf)
                        for i in range(n):
                            for j in range(p):
                                want = z3.Real(f"d_{i}_{j}") + (osz if i in pos else 0)
                                acc.oblige(eng, "outliers.exactly_the_evenly_spaced_rows", rv(df.iloc[i, j]) == want, dict(inf, row=i, col=j))
            # wrong number of means / variances
            for fn, kw in ((gen.generate_changing_data, dict(n=4, changepoints=[2], means=[0.0, 1.0, 2.0])),
                           (gen.generate_changing_data, dict(n=4, changepoints=[1, 2], variances=[1.0, 2.0])),
                           (gen.generate_anomalous_data, dict(n=4, anomalies=[(1, 2)], means=[0.0, 1.0])),
                           (gen.generate_anomalous_data, dict(n=4, anomalies=[(0, 1), (2, 3)], variances=[1.0, 2.0, 3.0])),
                           (gen.generate_anomalous_data, dict(n=4, anomalies=[(1, 2, 3)])),
                           # counts that are wrong but *divide* the number of segments / anomalies (seed C18-f)
                           (gen.generate_changing_data, dict(n=8, changepoints=[2, 4, 6], means=[0.0, 1.0])),
                           (gen.generate_changing_data, dict(n=8, changepoints=[1, 2, 3, 4, 5], variances=[1.0, 2.0, 3.0])),
                           (gen.generate_changing_data, dict(n=8, changepoints=[2, 4, 6], means=[0.0, 1.0], variances=[1.0, 2.0])),
                           (gen.generate_anomalous_data, dict(n=9, anomalies=[(0, 1), (2, 3), (4, 5), (6, 7)], means=[0.0, 1.0])),
                           (gen.generate_anomalous_data, dict(n=9, anomalies=[(0, 1), (2, 3), (4, 5), (6, 7)], variances=[1.0, 2.0]))):
                try:
                    fn(**kw, random_state=1)
                    ok = False
                except ValueError:
                    ok = True
                except Exception:
                    ok = False
                acc.concrete("inconsistent_counts_raise_ValueError", ok, dict(info, part="counts", call=fn.__name__, kwargs=str(kw)))
        # the real scipy draw is deterministic in the seed and the real output obeys the definition
        import skchange.datasets.generate as g
        with proxy.native():
            for sd_ in (0, 1, 5):
                a = g.generate_changing_data(6, [2, 4], [0.0, 2.0, -1.0], [1.0, 4.0, 0.25], random_state=sd_)
                b = g.generate_changing_data(6, [2, 4], [0.0, 2.0, -1.0], [1.0, 4.0, 0.25], random_state=sd_)
                z = g.generate_changing_data(6, [2, 4], [0.0, 0.0, 0.0], [1.0, 1.0, 1.0], random_state=sd_)
                c2 = g.generate_anomalous_data(6, [(1, 3)], [2.0], [4.0], random_state=sd_)
                d2 = g.generate_anomalous_data(6, [(1, 3)], [2.0], [4.0], random_state=sd_)
                want = z.values.copy()
                want[2:4] = 2.0 + 2.0 * want[2:4]
                want[4:6] = -1.0 + 0.5 * want[4:6]
                acc.concrete("real_rng.same_seed_same_frame", a.equals(b) and c2.equals(d2), dict(info, part="seed", seed=sd_))
                acc.concrete("real_rng.output_is_affine_image_of_standard_draw", bool(np.allclose(a.values, want)), dict(info, part="seed", seed=sd_))
                if np.allclose(a.values, want):
                    acc.inc("translator_ok")
                try:
                    cases = real_rng_cases(g, sd_)
                except Exception as ex:
                    cases = [(f"real_rng_cases raised {type(ex).__name__}: {ex}"[:200], np.zeros(1), np.ones(1))]
                for name, got_, want_ in cases:
                    same = got_.shape == want_.shape and bool(np.allclose(got_, want_))
                    acc.concrete("real_rng.per_column_output_is_affine_image_of_standard_draw", same, dict(info, part="seed_percol", seed=sd_, call=name))
                    if same:
                        acc.inc("translator_ok")
        acc.sample(dict(info, checked=["alternating", "outliers", "counts", "seed"]))

    return Harness(run, base, sliced=True, timeout_ms=10000, name="misc")


def jobs(tier):
    M = "harness.c18"
    out = []
    if tier == "quick":
        ch = [(3, 1, 1, False), (4, 1, 2, False), (4, 2, 1, True), (5, 2, 2, False)]
        an = [(3, 1, 1), (4, 2, 1), (5, 1, 2)]
        misc = dict(nmax=6, pmax=2)
    else:
        ch = [(n, p, k, pc) for n in (3, 5, 7) for p in (1, 2, 3) for k in (1, 2) for pc in (False, True) if not (pc and p == 1)] + [(6, 1, 3, False), (8, 2, 3, True)]
        an = [(n, p, k) for n in (3, 5, 7, 8) for p in (1, 2) for k in (1, 2)] + [(6, 1, 3)]
        misc = dict(nmax=8, pmax=3)
    for (n, p, k, pc) in ch:
        out.append(Job(M, "make_changing", dict(n=n, p=p, k=k, percol=pc), split=k >= 2))
    for (n, p, k) in an:
        out.append(Job(M, "make_anomalous", dict(n=n, p=p, k=k), split=k >= 2))
    out.append(Job(M, "make_misc", misc))
    return out


def replay(cx):
    import skchange.datasets.generate as g
    info = cx.get("info") or {}
    model = cx.get("model") or {}
    ob = cx["ob"]
    f = lambda k, d=0: float(Fraction(model.get(k, str(d))))
    gi = lambda k, d=0: int(Fraction(model.get(k, str(d))))
    kind = info.get("gen")
    bad = []
    with proxy.native():
        if kind == "changing":
            n, p, k, percol = info["n"], info["p"], info["k"], info["percol"]
            cps = info.get("cps") or [gi(f"cp{i}") for i in range(k)]
            mus = [[f(f"mu_{s}_{j}", s + 1) for j in range(p if percol else 1)] for s in range(k + 1)]
            vs = [[f(f"var_{s}_{j}", 1) for j in range(p if percol else 1)] for s in range(k + 1)]
            means = [np.array(m * (1 if percol else p)) for m in mus]
            variances = [np.array(v * (1 if percol else p)) for v in vs]
            sd_ = gi("seed", 0)
            try:
                df = g.generate_changing_data(n, list(cps), means, variances, random_state=sd_)
                z = g.generate_changing_data(n, [], [np.zeros(p)], [np.ones(p)], random_state=sd_).values
                again = g.generate_changing_data(n, list(cps), means, variances, random_state=sd_)
                outcome = "returned"
                if ob.startswith("rng_") and not df.equals(again):
                    bad.append(f"two calls with random_state={sd_} and equal arguments return different frames")
            except ValueError:
                outcome = "ValueError"
            except Exception as ex:
                outcome = f"{type(ex).__name__}: {ex}"[:120]
            valid = all(0 <= c <= n - 1 for c in cps) and all(a < b for a, b in zip(cps[:-1], cps[1:]))
            outside = any(c < 0 or c > n for c in cps)
            if outside and outcome != "ValueError":
                bad.append(f"changepoints {cps} outside the data (n={n}) -> {outcome}")
            elif valid and outcome != "returned":
                bad.append(f"valid changepoints {cps} (n={n}) -> {outcome}")
            elif valid:
                want = z.copy()
                b = [0] + list(cps) + [n]
                for s in range(k + 1):
                    want[b[s]:b[s + 1]] = means[s] + np.sqrt(variances[s]) * want[b[s]:b[s + 1]]
                if df.shape != (n, p) or not np.allclose(df.values, want):
                    bad.append(f"changepoints {cps}: output differs from mean + sd*z per segment")
            key = f"changing|{'outside' if outside else 'valid'}"
        elif kind == "anomalous":
            n, p, k = info["n"], info["p"], info["k"]
            an = info.get("anomalies") or [(gi(f"s{i}"), gi(f"e{i}")) for i in range(k)]
            an = [tuple(a) for a in an]
            means = [np.array([f(f"mu_{s}_{j}", s + 1 + j) for j in range(p)]) for s in range(k)]
            variances = [np.array([f(f"var_{s}_{j}", 1 + j) for j in range(p)]) for s in range(k)]
            try:
                df = g.generate_anomalous_data(n, list(an), means, variances, random_state=0)
                z = g.generate_anomalous_data(n, [(0, 1)], [np.zeros(p)], [np.ones(p)], random_state=0).values
                outcome = "returned"
            except ValueError:
                outcome = "ValueError"
            except Exception as ex:
                outcome = f"{type(ex).__name__}: {ex}"[:120]
            valid = all(0 <= a < b <= n for a, b in an) and all(an[i][1] <= an[j][0] or an[j][1] <= an[i][0] for i in range(k) for j in range(i + 1, k))
            outside = any(a < 0 or b > n for a, b in an)
            empty = any(b <= a for a, b in an)
            if (outside or empty) and outcome != "ValueError":
                bad.append(f"anomalies {an} {'outside the data' if outside else 'empty'} (n={n}) -> {outcome}")
            elif valid and outcome != "returned":
                bad.append(f"valid anomalies {an} (n={n}) -> {outcome}")
            elif valid:
                want = z.copy()
                for s, (a, b) in enumerate(an):
                    want[a:b] = means[s] + np.sqrt(variances[s]) * want[a:b]
                if df.shape != (n, p) or not np.allclose(df.values, want):
                    bad.append(f"anomalies {an}: output differs from mean + sd*z inside / z outside")
            key = f"anomalous|{'outside' if outside else ('empty' if empty else 'valid')}"
        else:
            part = info.get("part")
            key = f"misc|{part}|{ob}"
            if part == "outliers":
                n, p, k = info["n"], info["p"], info["n_outliers"]
                X = np.arange(n * p, dtype=float).reshape(n, p)
                try:
                    df = g.add_linspace_outliers(pd.DataFrame(X.copy()), k, 10.0)
                    want = X.copy()
                    want[np.linspace(0, n - 1, k, dtype=int)] += 10.0
                    if not np.allclose(df.values, want):
                        bad.append(f"add_linspace_outliers(n={n}, p={p}, n_outliers={k}) changed rows {np.nonzero((df.values != X).any(axis=1))[0].tolist()}, expected {np.linspace(0, n - 1, k, dtype=int).tolist()}")
                except Exception as ex:
                    bad.append(f"add_linspace_outliers on a {n}x{p} frame with n_outliers={k} raised {type(ex).__name__}: {ex}")
                key = f"misc|outliers|p={'1' if p == 1 else '>1'}"
            elif part == "alternating":
                nseg, L, p, prop = info["n_segments"], info["segment_length"], info["p"], info["affected_proportion"]
                try:
                    df = g.generate_alternating_data(nseg, L, p=p, mean=2.0, variance=4.0, affected_proportion=prop, random_state=3)
                    z = g.generate_alternating_data(nseg, L, p=p, mean=0.0, variance=1.0, affected_proportion=prop, random_state=3).values
                    want = z.copy().reshape(nseg * L, p)
                    naff = int(np.round(p * prop))
                    for i in range(nseg * L):
                        if (i // L) % 2 == 1:
                            want[i, :naff] = 2.0 + 2.0 * want[i, :naff]
                    if df.shape != (nseg * L, p) or not np.allclose(df.values, want):
                        bad.append(f"generate_alternating_data({nseg}, {L}, p={p}, affected_proportion={prop}) differs from the definition")
                except Exception as ex:
                    bad.append(f"generate_alternating_data({nseg}, {L}, p={p}) raised {type(ex).__name__}: {ex}")
            elif part == "counts":
                import ast
                kw = ast.literal_eval(info["kwargs"])
                fn = getattr(g, info["call"])
                try:
                    fn(**kw, random_state=1)
                    bad.append(f"{info['call']}(**{kw}) has an inconsistent number of means / variances but returned data instead of raising ValueError")
                except ValueError:
                    pass
                except Exception as ex:
                    bad.append(f"{info['call']}(**{kw}) raised {type(ex).__name__} instead of ValueError: {ex}"[:300])
                key = f"misc|counts|{info['call']}"
            elif part == "seed_percol":
                key = f"misc|seed_percol|{ob}"
                for name, got_, want_ in real_rng_cases(g, info.get("seed", 0)):
                    if got_.shape != want_.shape or not np.allclose(got_, want_):
                        bad.append(f"{name}, random_state={info.get('seed', 0)}: output {np.round(got_, 4).tolist()} is not mean + sqrt(variance) * Z "
                                   f"of the standard-normal output Z for the same seed ({np.round(want_, 4).tolist()})")
                        break
            elif part == "seed":
                sd_ = info.get("seed", 0)
                a = g.generate_changing_data(6, [2, 4], [0.0, 2.0, -1.0], [1.0, 4.0, 0.25], random_state=sd_)
                b = g.generate_changing_data(6, [2, 4], [0.0, 2.0, -1.0], [1.0, 4.0, 0.25], random_state=sd_)
                if not a.equals(b):
                    bad.append(f"generate_changing_data called twice with random_state={sd_} returns different frames")
                key = f"misc|seed|{ob}"
            else:
                # no native re-run written for this obligation: never reported as a violation on the harness's word alone
                return dict(reproduced=None, key=f"misc|{part}|{ob}", what=f"{ob}: no native replay for this obligation (info {str(info)[:200]})")
    return dict(reproduced=bool(bad), key=key, what="; ".join(bad)[:600])
