"""C08 -- moving window: symmetric two-sided scores and peak-of-run detections."""
from __future__ import annotations

from fractions import Fraction

import numpy as np
import pandas as pd
import z3

from symnp import proxy
from symnp.core import SymReal, rv
from symnp.drive import Acc, Harness, Job
from symnp.witness import FloatEval, close, robust_model

from .common import col_terms, model_env, rss, sym_matrix, tsum
from .scorers import TableChangeScore, values_from_model
from .wellformed import check_changepoints, problems_changepoints

PROPERTY = "C08"
FUNCTIONS = [
    "skchange.change_detectors.moving_window:moving_window_transform",
    "skchange.change_detectors.moving_window:get_moving_window_changepoints",
    "skchange.change_detectors.moving_window:MovingWindow.__init__",
    "skchange.change_detectors.moving_window:MovingWindow._fit",
    "skchange.change_detectors.moving_window:MovingWindow._get_threshold",
    "skchange.change_detectors.moving_window:MovingWindow._transform_scores",
    "skchange.change_detectors.moving_window:MovingWindow._predict",
    "skchange.utils.numba.general:where",
    "skchange.change_scores.from_cost:ChangeScore._evaluate",
    "skchange.change_scores.from_cost:to_change_score",
    "skchange.base.base_detector:BaseDetector.transform_scores",
]
BOUNDS = {
    "quick": "bandwidth b in {1,2}: n in [2b, 6]; b=3: n in {6,7}; b=4 (min_detection_interval 2): n=9; p in {1,2}; "
             "every admissible min_detection_interval; all scores and the threshold scale symbolic",
    "thorough": "b in {1,2,3}: n<=10; b=4: n<=12; b=6: n in {13,15}; every documented min_detection_interval; p<=2",
}
STUBS = ["TableChangeScore: user-defined change score returning one free real per (start, split, end, column)"]
ASSUMPTIONS = ["threshold_scale >= 0 (symbolic)", "exact real arithmetic",
               "reversal of detections is compared only on paths whose scores inside a run can be pairwise distinct "
               "(the property leaves the tie-break open)"]
OUTSIDE = ["n, b beyond the bounds", "float ties"]


def tvar(s, k, e, j):
    return z3.Real(f"T_{s}_{k}_{e}_{j}")


def dummy_X(n, p, xdtype="float"):
    X = pd.DataFrame(np.zeros((n, p)))
    return X if xdtype == "float" else X.astype(xdtype)


class MirrorScore(TableChangeScore):
    """The table of the time-reversed series: T'(s,k,e) = T(n-e, n-k, n-s)."""

    def _evaluate(self, cuts):
        cuts = np.asarray(cuts)
        n = self.n_
        return super()._evaluate(np.column_stack((n - cuts[:, 2], n - cuts[:, 1], n - cuts[:, 0])))


def make_mw(n, b, p=1, mdi=1, mode="c08", xdtype="float"):
    """xdtype: dtype of the (dummy) data frame -- the scores are arbitrary reals whatever the data's dtype is, so
    a work array allocated from the data's dtype must not be able to change them (seed C08-d)."""
    ts = z3.Real("tscale")
    base = [ts >= 0]
    X = dummy_X(n, p, xdtype)
    info = dict(n=n, b=b, p=p, mdi=mdi, xdtype=xdtype)

    def run(eng, acc):
        from skchange.change_detectors import MovingWindow
        from .prelude import prelude
        prelude("MovingWindow", n, p, b, xdtype=xdtype)
        try:
            det = MovingWindow(TableChangeScore(p=p), bandwidth=b, threshold_scale=SymReal(ts), min_detection_interval=mdi)
            det.fit(X)
            th = rv(det.threshold_)
            out = det.predict(X)
            cpts = [int(c) for c in out["ilocs"]]
            scores = det.transform_scores(X)
        except Exception as ex:
            acc.concrete("runs_to_completion", False, dict(info, exception=f"{type(ex).__name__}: {ex}"[:200]), eng=eng)
            return
        acc.concrete("runs_to_completion", True)
        acc.add_to("outputs", tuple(cpts))
        check_changepoints(acc, out, n, None, info, "MovingWindow", lo=b, hi=n - b, eng=eng)
        if mode == "c04":
            return
        acc.concrete("O1.scores_index", list(scores.index) == list(X.index) and len(scores) == n, info, eng=eng)
        sv = [rv(v) for v in scores.values]
        # O1: which samples enter the two windows, for any score
        for t in range(n):
            want = tsum([tvar(t - b, t, t + b, j) for j in range(p)]) if b <= t <= n - b else z3.RealVal(0)
            if z3.simplify(sv[t] - want).eq(z3.RealVal(0)):
                acc.concrete("O1.score_is_two_sided_window", True)
            else:
                acc.oblige(eng, "O1.score_is_two_sided_window", sv[t] == want, dict(info, t=t, got=str(z3.simplify(sv[t]))[:120]))
        # O3: one detection per maximal run (length >= mdi) of score > threshold, at a maximiser
        exceeds = []
        for t in range(n):
            ok, _ = eng.valid(sv[t] > th)
            if ok is True:
                exceeds.append(True)
            else:
                ok2, _ = eng.valid(z3.Not(sv[t] > th))
                exceeds.append(False if ok2 is True else None)
        acc.concrete("O3.exceedance_decided_by_path", None not in exceeds, dict(info, exceeds=exceeds), eng=eng)
        if None in exceeds:
            return
        runs, start = [], None
        for t, ex in enumerate(exceeds + [False]):
            if ex and start is None:
                start = t
            elif not ex and start is not None:
                runs.append((start, t))
                start = None
        want_runs = [r for r in runs if r[1] - r[0] >= mdi]
        per_run = [[c for c in cpts if r[0] <= c < r[1]] for r in want_runs]
        covered = sum(len(x) for x in per_run)
        acc.concrete("O3.one_detection_per_qualifying_run", all(len(x) == 1 for x in per_run) and covered == len(cpts),
                     dict(info, cpts=cpts, runs=runs), eng=eng)
        for r, cs in zip(want_runs, per_run):
            if len(cs) == 1:
                acc.oblige(eng, "O3.detection_is_run_maximum", z3.And([sv[cs[0]] >= sv[t] for t in range(r[0], r[1])]),
                           dict(info, cpts=cpts, run=r))
        # O4: time reversal (product run on the mirrored table, same path)
        det2 = MovingWindow(MirrorScore(p=p), bandwidth=b, threshold_scale=SymReal(ts), min_detection_interval=mdi)
        det2.fit(X)
        out2 = det2.predict(X)
        cpts2 = sorted(int(c) for c in out2["ilocs"])
        sv2 = [rv(v) for v in det2.transform_scores(X).values]
        for t in range(b, n - b + 1):
            if z3.simplify(sv2[t] - sv[n - t]).eq(z3.RealVal(0)):
                acc.concrete("O4.reversed_scores", True)
            else:
                acc.oblige(eng, "O4.reversed_scores", sv2[t] == sv[n - t], dict(info, t=t))
        distinct = [sv[t] != sv[u] for r in want_runs for t in range(r[0], r[1]) for u in range(t + 1, r[1])]
        if not distinct or eng.check(z3.And(distinct)) == z3.sat:
            if sorted(n - c for c in cpts) == cpts2:
                acc.concrete("O4.reversed_detections", True)
            else:
                # only a violation if it also happens without ties
                acc.oblige(eng, "O4.reversed_detections", z3.Not(z3.And(distinct)) if distinct else z3.BoolVal(False),
                           dict(info, cpts=cpts, reversed_cpts=cpts2))
        else:
            acc.inc("O4.tie_only_paths")
        _witness(eng, acc, n, b, p, mdi, cpts, sv, xdtype=xdtype)
        acc.sample(dict(info, cpts=cpts, exceeds=exceeds, score_b=str(z3.simplify(sv[b]))))

    return Harness(run, base, name=f"mw {info}")


def _native(n, b, p, mdi, values, tscale, xdtype="float"):
    from skchange.change_detectors import MovingWindow
    from .prelude import prelude
    prelude("MovingWindow", n, p, b, xdtype=xdtype)
    with proxy.native():
        det = MovingWindow(TableChangeScore(p=p, values=values), bandwidth=b, threshold_scale=float(tscale),
                           min_detection_interval=mdi)
        X = dummy_X(n, p, xdtype)
        det.fit(X)
        out = det.predict(X)
        sc = det.transform_scores(X)
        return out, np.asarray(sc.values, dtype=float), float(det.threshold_), getattr(getattr(det, "_change_score", None), "requested_", [])


def _witness(eng, acc, n, b, p, mdi, cpts, sv, cap=50, xdtype="float"):
    if acc.total("witness_tried") >= cap:
        return
    acc.inc("witness_tried")
    model, _ = robust_model(eng)
    if model is None:
        acc.inc("witness_tie_only_path")
        return
    env = model_env(model)
    values = {k: v for k, v in env.items() if k.startswith("T_")}
    try:
        out, sc, _, _ = _native(n, b, p, mdi, values, env.get("tscale", 0.0), xdtype)
    except Exception as ex:
        acc.error(f"C08 witness: native run raised {type(ex).__name__}: {ex}")
        return
    fe = FloatEval(env, eng)
    ok = [int(c) for c in out["ilocs"]] == cpts and all(close(float(sc[t]), fe(sv[t]), 1e-7, 1e-7) for t in range(n))
    if ok:
        acc.inc("witness_ok")
    else:
        acc.error(f"C08 witness mismatch n={n} b={b}: symbolic {cpts} native {list(out['ilocs'])} values {values}")


def make_mw_l2(n, b, p):
    """O2: the same window placement through the real ChangeScore(L2Cost) on symbolic data."""
    X = sym_matrix(n, p)
    info = dict(n=n, b=b, p=p, scorer="L2Cost")

    def run(eng, acc):
        from skchange.change_detectors import MovingWindow
        from skchange.costs import L2Cost
        try:
            det = MovingWindow(L2Cost(), bandwidth=b).fit(pd.DataFrame(X))
            sv = det.transform_scores(pd.DataFrame(X)).values
        except Exception as ex:
            acc.concrete("runs_to_completion", False, dict(info, exception=f"{type(ex).__name__}: {ex}"[:200], t=b), eng=eng)
            return
        for t in range(n):
            if b <= t <= n - b:
                want = tsum([rss(col_terms(X, t - b, t + b, j)) - rss(col_terms(X, t - b, t, j)) - rss(col_terms(X, t, t + b, j))
                             for j in range(p)])
            else:
                want = z3.RealVal(0)
            acc.oblige(eng, "O2.l2_window_score", rv(sv[t]) == want, dict(info, t=t))
        acc.sample(dict(info, score_b=str(z3.simplify(rv(sv[b])))[:200]))

    return Harness(run, [], sliced=True, timeout_ms=10000, name=f"mw_l2 {info}")


def admissible_mdi(b):
    """min_detection_interval values the constructor documents: 1 .. bandwidth/2."""
    return list(range(1, max(1, b // 2) + 1))


def jobs(tier, mode="c08"):
    M = "harness.c08"
    out = []
    if tier == "quick":
        grid = [(n, 1, p) for n in range(2, 7) for p in (1, 2)] + [(n, 2, 1) for n in range(4, 7)] + [(6, 2, 2), (6, 3, 1), (7, 3, 1), (9, 4, 1)]
        l2 = [(5, 1, 1), (5, 2, 2), (6, 3, 1)]
    else:
        grid = ([(n, 1, p) for n in range(2, 11) for p in (1, 2)] + [(n, 2, p) for n in range(4, 11) for p in (1, 2)]
                + [(n, 3, 1) for n in range(6, 11)] + [(n, 4, 1) for n in range(8, 13)] + [(13, 6, 1), (15, 6, 1)])
        l2 = [(n, b, p) for n in (4, 6, 7) for b in (1, 2, 3) for p in (1, 2) if n >= 2 * b]
    for (n, b, p) in grid:
        for mdi in admissible_mdi(b):
            big = n - 2 * b >= 5
            out.append(Job(M, "make_mw", dict(n=n, b=b, p=p, mdi=mdi, mode=mode), split=big))
    # two qualifying runs separated by a short dip need min_detection_interval >= 3, i.e. bandwidth >= 6 (seed C08-f)
    for (n, b, mdi) in ([(18, 6, 3)] if tier == "quick" else [(18, 6, 3), (19, 6, 3), (20, 6, 2)]):
        out.append(Job(M, "make_mw", dict(n=n, b=b, p=1, mdi=mdi, mode=mode), split=True))
    # the same claims when the data are integer typed (the scores are still arbitrary reals)
    for (n, b, p) in ([(4, 1, 1), (5, 2, 1)] if tier == "quick" else [(4, 1, 1), (5, 1, 2), (5, 2, 1), (7, 3, 1)]):
        out.append(Job(M, "make_mw", dict(n=n, b=b, p=p, mdi=1, mode=mode, xdtype="int64")))
    if mode == "c08":
        for (n, b, p) in l2:
            out.append(Job(M, "make_mw_l2", dict(n=n, b=b, p=p)))
    return out


def extra(tier, seed):
    """E2: CrossHair contracts of the pure-Python helpers this property rests on (thorough tier)."""
    if tier != "thorough":
        return None
    from .e2 import run_specs
    return run_specs(["where"], timeout=90)


def replay(cx):
    from .e2 import replay_cx
    _e2 = replay_cx(cx)
    if _e2 is not None:
        return _e2
    info = cx.get("info") or {}
    model = cx.get("model") or {}
    ob = cx["ob"]
    n, b, p, mdi = info.get("n"), info.get("b"), info.get("p", 1), info.get("mdi", 1)
    key = f"{ob}|b={'1' if b == 1 else '>=2'}" + ("" if info.get("xdtype", "float") == "float" else "|" + info["xdtype"])
    if info.get("scorer") == "L2Cost":
        from skchange.change_detectors import MovingWindow
        from skchange.costs import L2Cost
        Xf = np.array([[float(Fraction(model.get(f"x_{i}_{j}", "0"))) for j in range(p)] for i in range(n)])
        with proxy.native():
            sv = MovingWindow(L2Cost(), bandwidth=b).fit(Xf).transform_scores(Xf).values
        t = info["t"]
        r = lambda a: float(((a - a.mean(axis=0)) ** 2).sum())
        want = r(Xf[t - b:t + b]) - r(Xf[t - b:t]) - r(Xf[t:t + b]) if b <= t <= n - b else 0.0
        bad = abs(sv[t] - want) > 1e-7 * (1 + abs(want))
        return dict(reproduced=bool(bad), key=key, what=f"MovingWindow(L2Cost, bandwidth={b}) score at t={t} is {sv[t]:.6g}, "
                    f"two-sided window definition gives {want:.6g} [X={Xf.tolist()}]")
    values = values_from_model(model, ["T"])
    # give every table entry a distinct default so that a wrong cut is visible
    full = {}
    for s in range(-1, n + 1):
        for k in range(s, n + 2):
            for e in range(k, n + 3):
                for j in range(p):
                    full[f"T_{s}_{k}_{e}_{j}"] = values.get(f"T_{s}_{k}_{e}_{j}", 0.001 * (1 + s + 7 * k + 31 * e + j) + (3.0 if (s + k + e) % 2 else 0.0))
    tscale = float(Fraction(model.get("tscale", "1")))
    try:
        out, sc, th, req = _native(n, b, p, mdi, full, tscale, info.get("xdtype", "float"))
    except Exception as ex:
        return dict(reproduced=True, key=f"{ob}|exception", what=f"MovingWindow(bandwidth={b}) on n={n} raised {type(ex).__name__}: {ex}")
    bad = []
    for t in range(n):
        want = sum(full[f"T_{t - b}_{t}_{t + b}_{j}"] for j in range(p)) if b <= t <= n - b else 0.0
        if abs(sc[t] - want) > 1e-9:
            bad.append(f"score[{t}]={sc[t]:.6g} but T({t - b},{t},{t + b}) summed over columns = {want:.6g}; requested cuts {req[:4]}")
            break
    cpts = [int(c) for c in out["ilocs"]]
    bad += problems_changepoints(out, n, None, b, n - b)
    # reference detections from the native scores
    ex = [s > th for s in sc]
    ref, start = [], None
    for t, v in enumerate(ex + [False]):
        if v and start is None:
            start = t
        elif not v and start is not None:
            if t - start >= mdi:
                seg = sc[start:t]
                if list(seg).count(seg.max()) == 1:
                    ref.append(start + int(np.argmax(seg)))
                else:
                    ref.append(None)
            start = None
    if None not in ref and ref != cpts:
        bad.append(f"changepoints {cpts} but peak-of-run reference gives {ref} (scores {sc.tolist()}, threshold {th:.6g})")
    return dict(reproduced=bool(bad), key=key, what=f"MovingWindow(bandwidth={b}, min_detection_interval={mdi}) n={n} p={p}: " + "; ".join(bad[:2]))
