#!/bin/sh
# tools/run_all.sh [quick|thorough] [ids...]  -- run checks in sequence, one summary line each
cd "$(dirname "$0")/.." || exit 3
TIER="${1:-quick}"; shift
IDS="$*"
[ -n "$IDS" ] || IDS=$(python3 -c "import json;print(' '.join(c['property_id'] for c in json.load(open('MANIFEST.json'))['checks']))")
rc=0
for id in $IDS; do
  start=$(date +%s)
  timeout ${VERIF_CHECK_TIMEOUT:-7200} ./check "$id" --tier "$TIER" > "/tmp/verif_$id.log" 2>&1; code=$?
  echo "$id exit=$code $(($(date +%s)-start))s $(grep -c '^VIOLATION' /tmp/verif_$id.log) violations | $(tail -1 /tmp/verif_$id.log | cut -c1-200)"
  [ $code -eq 0 ] || rc=1
done
exit $rc
