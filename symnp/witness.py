"""symnp.witness -- float witnesses (DESIGN.md 2.1 "Numeric model").

A model of the path condition is turned into concrete floats and replayed through the
*unpatched* code; the symbolic prediction, evaluated numerically under the same
values, must agree.  Because native floats round, the model is asked to satisfy the
path's decisions with a margin; paths that only exist on exact ties get no float
witness (counted separately)."""
from __future__ import annotations

import math
from fractions import Fraction

import z3

from .core import Engine, to_fraction

_CMP = {z3.Z3_OP_LE, z3.Z3_OP_LT, z3.Z3_OP_GE, z3.Z3_OP_GT}


def _is_real_cmp(t):
    return z3.is_app(t) and t.decl().kind() in _CMP and t.arg(0).sort().kind() == z3.Z3_REAL_SORT


def adjust(t, delta, strengthen=True):
    """Strengthen (or weaken) every real comparison in boolean term t by delta."""
    k = t.decl().kind() if z3.is_app(t) else None
    d = z3.RealVal(Fraction(delta))
    if k == z3.Z3_OP_AND:
        return z3.And([adjust(c, delta, strengthen) for c in t.children()])
    if k == z3.Z3_OP_OR:
        return z3.Or([adjust(c, delta, strengthen) for c in t.children()])
    if k == z3.Z3_OP_NOT:
        return z3.Not(adjust(t.arg(0), delta, not strengthen))
    if k == z3.Z3_OP_IMPLIES:
        return z3.Or(z3.Not(adjust(t.arg(0), delta, not strengthen)), adjust(t.arg(1), delta, strengthen))
    if _is_real_cmp(t):
        a, b = t.arg(0), t.arg(1)
        if k in (z3.Z3_OP_GE, z3.Z3_OP_GT):
            a, b = b, a          # now a <= b / a < b
        return (a + d <= b) if strengthen else (a < b + d)
    if k == z3.Z3_OP_EQ and t.arg(0).sort().kind() == z3.Z3_REAL_SORT:
        if strengthen:
            return t
        a, b = t.arg(0), t.arg(1)
        return z3.And(a < b + d, b < a + d)
    if k == z3.Z3_OP_DISTINCT and t.num_args() == 2 and t.arg(0).sort().kind() == z3.Z3_REAL_SORT:
        a, b = t.arg(0), t.arg(1)
        if strengthen:
            return z3.Or(a + d <= b, b + d <= a)
        return t
    return t


def robust_model(eng, deltas=(1e-2, 1e-5, 1e-10), extra=(), timeout_ms=5000):
    """A model of base + path condition whose real comparisons hold with a margin.
    Returns (model, delta) or (None, None) for tie-only paths / solver give-up."""
    for delta in deltas:
        s = z3.Solver()
        s.set("timeout", timeout_ms)
        s.add(*eng.base)
        for c in eng.pc[: eng.synced]:
            s.add(adjust(c, delta, True))
        s.add(*extra)
        eng.nchecks += 1
        if s.check() == z3.sat:
            return s.model(), delta
    return None, None


def model_value(model, term, default=0):
    v = model.eval(term, model_completion=True)
    try:
        return to_fraction(v)
    except TypeError:
        return Fraction(default)


class FloatEval:
    """Numerical evaluation of a z3 term: variables from `env` (name -> number);
    `log#k` / `sqrt#k` auxiliaries are resolved through the engine's tables so that
    they carry the true function values rather than a model's arbitrary ones."""

    def __init__(self, env, eng=None):
        self.env = dict(env)
        self.eng = eng
        self.cache = {}
        self.aux = {}
        if eng is not None:
            for a, v in eng.logs:
                self.aux[v.decl().name()] = ("log", a)
            for key, val in eng.notes.items():
                if isinstance(key, tuple) and key and key[0] == "sqrt":
                    self.aux[val[0].decl().name()] = ("sqrt", val[1])

    def __call__(self, t):
        i = t.get_id()
        if i in self.cache:
            return self.cache[i][1]
        v = self._ev(t)
        self.cache[i] = (t, v)
        return v

    def _ev(self, t):
        if z3.is_int_value(t):
            return t.as_long()
        if z3.is_rational_value(t):
            return t.numerator_as_long() / t.denominator_as_long()
        if z3.is_true(t):
            return True
        if z3.is_false(t):
            return False
        k = t.decl().kind()
        if k == z3.Z3_OP_UNINTERPRETED and t.num_args() == 0:
            name = t.decl().name()
            if name in self.aux:
                kind, arg = self.aux[name]
                x = self(arg)
                if kind == "log":
                    return math.log(x) if x > 0 else float("nan")
                return math.sqrt(x) if x >= 0 else float("nan")
            if name in self.env:
                return float(self.env[name]) if not isinstance(self.env[name], bool) else self.env[name]
            return 0.0   # variable unconstrained on this path: same default as the native side
        ch = [self(c) for c in t.children()] if k != z3.Z3_OP_ITE else None
        if k == z3.Z3_OP_ADD:
            return math.fsum(ch)
        if k == z3.Z3_OP_SUB:
            r = ch[0]
            for c in ch[1:]:
                r -= c
            return r
        if k == z3.Z3_OP_UMINUS:
            return -ch[0]
        if k == z3.Z3_OP_MUL:
            r = 1.0
            for c in ch:
                r *= c
            return r
        if k in (z3.Z3_OP_DIV, z3.Z3_OP_IDIV):
            return ch[0] / ch[1] if k == z3.Z3_OP_DIV else ch[0] // ch[1]
        if k == z3.Z3_OP_TO_REAL:
            return float(ch[0])
        if k == z3.Z3_OP_ITE:
            return self(t.arg(1)) if self(t.arg(0)) else self(t.arg(2))
        if k == z3.Z3_OP_LE:
            return ch[0] <= ch[1]
        if k == z3.Z3_OP_LT:
            return ch[0] < ch[1]
        if k == z3.Z3_OP_GE:
            return ch[0] >= ch[1]
        if k == z3.Z3_OP_GT:
            return ch[0] > ch[1]
        if k == z3.Z3_OP_EQ:
            return ch[0] == ch[1]
        if k == z3.Z3_OP_DISTINCT:
            return len(set(ch)) == len(ch)
        if k == z3.Z3_OP_AND:
            return all(ch)
        if k == z3.Z3_OP_OR:
            return any(ch)
        if k == z3.Z3_OP_NOT:
            return not ch[0]
        if k == z3.Z3_OP_IMPLIES:
            return (not ch[0]) or ch[1]
        if k == z3.Z3_OP_POWER:
            return ch[0] ** ch[1]
        raise NotImplementedError(f"FloatEval: {t.decl().name()}")


def close(a, b, rel=1e-6, abs_=1e-9):
    if isinstance(a, float) and isinstance(b, float) and math.isnan(a) and math.isnan(b):
        return True
    return abs(a - b) <= abs_ + rel * max(abs(a), abs(b))
