"""C06 -- scores derived from costs equal their defining cost differences."""
from __future__ import annotations

import itertools
import math
from fractions import Fraction

import numpy as np
import pandas as pd
import z3

from symnp import proxy
from symnp.core import Engine, SymInt, SymReal, log_term, rv
from symnp.drive import Acc, Harness, Job

from .common import FLOOR, PI2, col_terms, rss, sym_matrix, tsum
from .scorers import TableChangeScore, TableCost, TableLocalScore, TableSaving, UFCost

PROPERTY = "C06"
FUNCTIONS = [
    "skchange.change_scores.from_cost:ChangeScore._evaluate",
    "skchange.change_scores.from_cost:ChangeScore._fit",
    "skchange.change_scores.from_cost:to_change_score",
    "skchange.change_scores.cusum:cusum_score",
    "skchange.change_scores.cusum:CUSUM._evaluate",
    "skchange.anomaly_scores.from_cost:Saving.__init__",
    "skchange.anomaly_scores.from_cost:Saving._fit",
    "skchange.anomaly_scores.from_cost:Saving._evaluate",
    "skchange.anomaly_scores.from_cost:to_saving",
    "skchange.anomaly_scores.from_cost:LocalAnomalyScore._fit",
    "skchange.anomaly_scores.from_cost:LocalAnomalyScore._evaluate",
    "skchange.anomaly_scores.from_cost:LocalAnomalyScore._check_cuts",
    "skchange.anomaly_scores.from_cost:to_local_anomaly_score",
    "skchange.anomaly_scores.l2_saving:l2_saving",
    "skchange.anomaly_scores.l2_saving:L2Saving._evaluate",
    "skchange.costs.l2_cost:l2_cost_optim",
    "skchange.costs.l2_cost:l2_cost_fixed",
    "skchange.costs.gaussian_var_cost:gaussian_var_cost_optim",
    "skchange.costs.gaussian_var_cost:gaussian_var_cost_fixed",
    "skchange.costs.gaussian_cov_cost:gaussian_cov_cost_optim",
]
BOUNDS = {
    "quick": "adapters over table / uninterpreted costs: n<=5, p<=2, every admissible 3- and 4-point cut; CUSUM and "
             "L2Saving against the L2-cost definitions on symbolic data n<=5, p<=2; L2 inequalities n<=5; Gaussian "
             "inequalities n<=5, p=1",
    "thorough": "n<=6, p<=2 (Gaussian inequalities n<=6, p=1; multivariate cost p=1 only)",
}
STUBS = ["TableCost / UFCost (any user cost)", "np.sqrt: fresh r >= 0 with r*r == t", "np.log: Ackermannised",
         "log contract instances added per query and listed: monotonicity, concavity (Jensen, concrete weights), "
         "log(ab) = log a + log b, log x <= x - 1"]
ASSUMPTIONS = ["exact real arithmetic", "Gaussian inequalities: all segment variances >= 1e-3 (the property's 'well above the 1e-16 floor'), fixed variance > 0"]
OUTSIDE = ["rounding", "variances at / below the floor for the inequalities",
           "multivariate Gaussian inequalities for p >= 2 (log-det concavity is not encodable within reach)"]


WELL_ABOVE = z3.RealVal(Fraction(1, 1000))   # "variances well above the 1e-16 floor" (property text)


def cuts3(n, ms=1):
    return [(s, k, e) for s in range(n) for k in range(s + ms, n) for e in range(k + ms, n + 1)]


def cuts4(n, ms=1):
    return [(s, a, b, e) for s in range(n) for a in range(s + 1, n) for b in range(a + ms, n) for e in range(b + 1, n + 1)
            if (a - s) + (e - b) >= ms]


def dummy(n, p):
    return np.zeros((n, p))


# ---------------------------------------------------------------------------------- plumbing

def make_adapters(n, p):
    info = dict(n=n, p=p, part="adapters")

    def run(eng, acc):
        from skchange.anomaly_scores import LocalAnomalyScore, Saving, to_local_anomaly_score, to_saving
        from skchange.change_scores import ChangeScore, to_change_score
        c = lambda mode, s, e, j: z3.Real(f"c{mode}_{s}_{e}_{j}")
        # ChangeScore(any cost) = C(s,e) - C(s,k) - C(k,e)
        cs = ChangeScore(TableCost(p=p)).fit(dummy(n, p))
        cuts = cuts3(n)
        got = cs.evaluate(np.array(cuts))
        acc.concrete("change_score.shape", tuple(got.shape) == (len(cuts), p), dict(info, shape=tuple(got.shape)))
        for i, (s, k, e) in enumerate(cuts):
            for j in range(p):
                want = c("o", s, e, j) - c("o", s, k, j) - c("o", k, e, j)
                acc.oblige(eng, "change_score.is_cost_difference", rv(got[i, j]) == want, dict(info, cut=(s, k, e), col=j))
        # Saving(any cost) = C_fixed(s,e) - C_optimal(s,e)
        sv = Saving(TableCost(param=0.0, p=p)).fit(dummy(n, p))
        cuts2 = [(s, e) for s in range(n) for e in range(s + 1, n + 1)]
        got = sv.evaluate(np.array(cuts2))
        acc.concrete("saving.shape", tuple(got.shape) == (len(cuts2), p), dict(info, shape=tuple(got.shape)))
        for i, (s, e) in enumerate(cuts2):
            for j in range(p):
                acc.oblige(eng, "saving.is_fixed_minus_optimal", rv(got[i, j]) == c("f", s, e, j) - c("o", s, e, j), dict(info, cut=(s, e), col=j))
        # LocalAnomalyScore(any cost) = C(s,e) - C(a,b) - C(rows of [s,a) and [b,e) pooled)
        X = sym_matrix(n, p)
        la = LocalAnomalyScore(UFCost()).fit(X)
        U = UFCost()
        cuts = cuts4(n)
        got = la.evaluate(np.array(cuts))
        acc.concrete("local_score.shape", tuple(got.shape) == (len(cuts), p), dict(info, shape=tuple(got.shape)))
        for i, (s, a, b, e) in enumerate(cuts):
            pooled = np.concatenate((X[s:a], X[b:e]))
            for j in range(p):
                want = U.value(X[s:e], j) - U.value(X[a:b], j) - U.value(pooled, j)
                acc.oblige(eng, "local_score.is_outer_minus_inner_minus_pooled", rv(got[i, j]) == want, dict(info, cut=(s, a, b, e), col=j))
        # the same with a fixed-parameter / non-default-constructed user cost: every one of the three terms
        # must come from a cost configured like the user's (the pooled term is computed by a refitted copy)
        laf = LocalAnomalyScore(UFCost(param=1.0, tag="W")).fit(X)
        Uf = UFCost(param=1.0, tag="W")
        gotf = laf.evaluate(np.array(cuts))
        for i, (s, a, b, e) in enumerate(cuts):
            pooled = np.concatenate((X[s:a], X[b:e]))
            for j in range(p):
                want = Uf.value(X[s:e], j) - Uf.value(X[a:b], j) - Uf.value(pooled, j)
                acc.oblige(eng, "local_score.is_outer_minus_inner_minus_pooled", rv(gotf[i, j]) == want, dict(info, cut=(s, a, b, e), col=j, cost="fixed-parameter user cost"))
        # pass-through converters
        for name, conv, same, other in (
            ("to_change_score", to_change_score, TableChangeScore(p=p), TableSaving(p=p)),
            ("to_saving", to_saving, TableSaving(p=p), TableChangeScore(p=p)),
            ("to_local_anomaly_score", to_local_anomaly_score, TableLocalScore(p=p), TableSaving(p=p)),
        ):
            acc.concrete(f"{name}.same_object_for_matching_type", conv(same) is same, info)
            try:
                conv(other)
                acc.concrete(f"{name}.rejects_other_scorers", False, info)
            except ValueError:
                acc.concrete(f"{name}.rejects_other_scorers", True)
            wrapped = conv(TableCost(param=0.0, p=p))
            acc.concrete(f"{name}.wraps_costs", type(wrapped).__name__ in ("ChangeScore", "Saving", "LocalAnomalyScore"), info)
        acc.sample(dict(info, local_score_term=str(rv(got[0, 0]))[:200]))

    return Harness(run, [], name=f"adapters {info}")


# ---------------------------------------------------------------------------------- direct implementations

def make_direct(n, p):
    X = sym_matrix(n, p)
    info = dict(n=n, p=p, part="direct")
    hs = []

    def cusum_h(cut):
        s, k, e = cut

        def run(eng, acc):
            from skchange.change_scores import CUSUM, ChangeScore
            from skchange.costs import L2Cost
            with proxy.settings(exact=True, object_ints=True):
                cutarr = np.array([[SymInt(s), SymInt(k), SymInt(e)]], dtype=object)
                cu = CUSUM().fit(X).evaluate(cutarr)
            l2 = ChangeScore(L2Cost()).fit(X).evaluate(np.array([[s, k, e]]))
            acc.concrete("cusum.shape", tuple(cu.shape) == (1, p), dict(info, shape=tuple(cu.shape)))
            for j in range(p):
                want = rss(col_terms(X, s, e, j)) - rss(col_terms(X, s, k, j)) - rss(col_terms(X, k, e, j))
                acc.oblige(eng, "cusum_squared.is_l2_change_score", rv(cu[0, j]) * rv(cu[0, j]) == want, dict(info, cut=cut, col=j))
                acc.oblige(eng, "cusum.nonnegative", rv(cu[0, j]) >= 0, dict(info, cut=cut, col=j))
                acc.oblige(eng, "l2_change_score.is_rss_difference", rv(l2[0, j]) == want, dict(info, cut=cut, col=j))
                acc.oblige(eng, "l2_change_score.nonnegative", rv(l2[0, j]) >= 0, dict(info, cut=cut, col=j))
            acc.sample(dict(info, cut=cut, cusum=str(z3.simplify(rv(cu[0, 0])))[:160]))
            # float witness: the symbolic CUSUM term evaluated at a data point vs the native run
            from symnp.witness import FloatEval, close
            rng = np.random.default_rng(s * 100 + k * 10 + e)
            Xf = rng.integers(-12, 13, size=(n, p)) / 4.0
            env = {f"x_{i}_{j}": Xf[i, j] for i in range(n) for j in range(p)}
            fe = FloatEval(env, eng)
            with proxy.native():
                nat = CUSUM().fit(Xf).evaluate(np.array([[s, k, e]]))
            if all(close(float(nat[0, j]), fe(rv(cu[0, j])), 1e-9, 1e-9) for j in range(p)):
                acc.inc("witness_ok")
            else:
                acc.error(f"C06 witness mismatch CUSUM {cut}: native {nat.tolist()} symbolic {[fe(rv(cu[0, j])) for j in range(p)]}")

        return Harness(run, [], sliced=True, timeout_ms=10000, name=f"cusum {cut}")

    def saving_h():
        mu = z3.Real("mu")

        def run(eng, acc):
            from skchange.anomaly_scores import L2Saving, Saving
            from skchange.costs import L2Cost
            cuts2 = [(s, e) for s in range(n) for e in range(s + 1, n + 1)]
            a = L2Saving().fit(X).evaluate(np.array(cuts2))
            b = Saving(L2Cost(0.0)).fit(X).evaluate(np.array(cuts2))
            g = Saving(L2Cost(SymReal(mu))).fit(X).evaluate(np.array(cuts2))
            for i, (s, e) in enumerate(cuts2):
                for j in range(p):
                    ts = col_terms(X, s, e, j)
                    want = rss(ts, z3.RealVal(0)) - rss(ts)
                    acc.oblige(eng, "l2_saving.is_saving_of_l2_cost_at_zero", rv(a[i, j]) == want, dict(info, cut=(s, e), col=j))
                    acc.oblige(eng, "saving_l2cost0.is_definition", rv(b[i, j]) == want, dict(info, cut=(s, e), col=j))
                    acc.oblige(eng, "l2_saving.nonnegative", rv(a[i, j]) >= 0, dict(info, cut=(s, e), col=j))
                    acc.oblige(eng, "l2.optimal_not_above_fixed", rv(g[i, j]) >= 0, dict(info, cut=(s, e), col=j, fixed="mu"))

        return Harness(run, [], sliced=True, timeout_ms=10000, name="l2saving")

    for cut in cuts3(n):
        hs.append(cusum_h(cut))
    hs.append(saving_h())
    return hs


# ---------------------------------------------------------------------------------- adapters over the built-in costs

def make_builtin(kind, mode, n, p):
    """The three adapters around a *built-in* cost in every parameter mode (scalar and per-column fixed
    parameters are solver variables, so 'some component is zero' is a point of the space): the adapter's
    output must be the defining difference of that cost's own `evaluate` values on the same data (what the
    cost's values are is C01's business).  Found necessary by seed C06-c: a closed-form shortcut taken for
    the wrong set of fixed means is invisible to table costs."""
    from .c01 import _cost, _min_size
    X = sym_matrix(n, p)
    ms = _min_size(kind, p)
    info = dict(n=n, p=p, part="builtin", kind=kind, mode=mode)
    _, base, _ = _cost(kind, mode, p)

    def harness(c3, c2s, c4, label):
        """c3 / c2s / c4: the batches handed to ChangeScore / Saving / LocalAnomalyScore in this harness"""

        def run(eng, acc):
            from skchange.anomaly_scores import LocalAnomalyScore, Saving
            from skchange.change_scores import ChangeScore
            mk = lambda: _cost(kind, mode, p)[0]
            mk_opt = lambda: _cost(kind, "optim", p)[0]
            need = set(c2s)
            for (s, k, e) in c3:
                need |= {(s, e), (s, k), (k, e)}
            for (s, a, b, e) in c4:
                need |= {(s, e), (a, b)}
            c2 = sorted(need)
            with proxy.settings(exact=True):
                try:
                    own = mk().fit(X).evaluate(np.array(c2))
                    val = {c: own[i] for i, c in enumerate(c2)}
                    q = own.shape[1]
                    if c3:
                        got = ChangeScore(mk()).fit(X).evaluate(np.array(c3))
                        acc.concrete("builtin.change_score.shape", tuple(got.shape) == (len(c3), q), dict(info, shape=tuple(got.shape)))
                        for i, (s, k, e) in enumerate(c3):
                            for j in range(q):
                                want = rv(val[(s, e)][j]) - rv(val[(s, k)][j]) - rv(val[(k, e)][j])
                                acc.oblige(eng, "builtin.change_score.is_cost_difference", rv(got[i, j]) == want, dict(info, cut=(s, k, e), col=j, batch=len(c3)))
                    if mode != "optim" and c2s:
                        opt = mk_opt().fit(X).evaluate(np.array(c2s))
                        got = Saving(mk()).fit(X).evaluate(np.array(c2s))
                        acc.concrete("builtin.saving.shape", tuple(got.shape) == (len(c2s), q), dict(info, shape=tuple(got.shape)))
                        for i, c in enumerate(c2s):
                            for j in range(q):
                                acc.oblige(eng, "builtin.saving.is_fixed_minus_optimal", rv(got[i, j]) == rv(val[c][j]) - rv(opt[i, j]), dict(info, cut=c, col=j, batch=len(c2s)))
                    if c4:
                        got = LocalAnomalyScore(mk()).fit(X).evaluate(np.array(c4))
                        for i, (s, a, b, e) in enumerate(c4):
                            pooled = np.concatenate((X[s:a], X[b:e]))
                            pv = mk().fit(pooled).evaluate(np.array([[0, len(pooled)]]))
                            for j in range(q):
                                want = rv(val[(s, e)][j]) - rv(val[(a, b)][j]) - rv(pv[0, j])
                                acc.oblige(eng, "builtin.local_score.is_outer_minus_inner_minus_pooled", rv(got[i, j]) == want, dict(info, cut=(s, a, b, e), col=j, batch=len(c4)))
                except RuntimeError:
                    acc.inc("not_pd_paths")
                    return
            acc.sample(dict(info, batch=label))

        return Harness(run, base, sliced=True, timeout_ms=20000, name=f"builtin {info} {label}")

    all2 = [(s, e) for s in range(n) for e in range(s + ms, n + 1)]
    all3, all4 = cuts3(n, ms), cuts4(n, ms)
    if kind == "l2":
        return [harness(all3, all2, all4, "all cuts in one batch")]     # no data-dependent branching: the full batches
    # the Gaussian costs branch per interval (variance floor / definiteness): one harness per cut keeps the paths apart
    hs = [harness([c], [], [], f"cut {c}") for c in all3]
    hs += [harness([], [c], [], f"cut {c}") for c in all2] if mode != "optim" else []
    hs += [harness([], [], [c], f"cut {c}") for c in all4]
    return hs

# ---------------------------------------------------------------------------------- Gaussian inequalities

def _var(X, s, e, j):
    return rss(col_terms(X, s, e, j)) / (e - s)


def make_gauss(n, kind="gvar"):
    """Change score >= 0 (= split inequality) and optimal <= fixed for the Gaussian
    costs, p = 1, with explicitly instantiated contract lemmas of log."""
    p = 1
    X = sym_matrix(n, p)
    info = dict(n=n, p=p, part="gauss", kind=kind)
    hs = []

    def split_h(cut):
        s, k, e = cut
        m = e - s
        vL, vR, vF = _var(X, s, k, 0), _var(X, k, e, 0), _var(X, s, e, 0)
        base = [vL >= WELL_ABOVE, vR >= WELL_ABOVE, vF >= WELL_ABOVE]

        def run(eng, acc):
            from skchange.change_scores import ChangeScore
            from skchange.costs import GaussianCovCost, GaussianVarCost
            with proxy.settings(exact=True):
                cost = GaussianVarCost() if kind == "gvar" else GaussianCovCost()
                try:
                    out = ChangeScore(cost).fit(X).evaluate(np.array([[s, k, e]]))
                except RuntimeError:
                    acc.inc("not_pd_paths")
                    return
                c = PI2 if kind == "gvar" else z3.RealVal(1)
                aL, aR, aF = c * vL, c * vR, c * vF
                wa, wb = Fraction(k - s, m), Fraction(e - k, m)
                mix = z3.RealVal(wa) * aL + z3.RealVal(wb) * aR
                lL, lR, lF, lM = log_term(aL), log_term(aR), log_term(aF), log_term(mix)
                lemmas = [lM >= z3.RealVal(wa) * lL + z3.RealVal(wb) * lR,     # concavity (Jensen) at (aL, aR; wa, wb)
                          z3.Implies(mix <= aF, lM <= lF)]                       # monotonicity at (mix, aF)
                eng.log_lemmas += ["concave(aL,aR;k/m,(m-k)/m)", "monotone(mix,aF)"]
                for lem in lemmas:
                    eng.assume(lem, conservative=True)
                acc.oblige(eng, f"{kind}.change_score_nonnegative_and_split_inequality", rv(out[0, 0]) >= 0, dict(info, cut=cut))
                # vacuity twin: without the concavity instance the claim must NOT follow
                acc.inc("lemma_instances", 2)
            acc.sample(dict(info, cut=cut, lemmas=["concave(aL,aR;k/m,(m-k)/m)", "monotone(mix,aF)"]))

        return Harness(run, base, sliced=True, timeout_ms=20000, name=f"gauss split {cut}")

    def fixed_h(iv):
        s, e = iv
        m = e - s
        mu, var = z3.Real("mu"), z3.Real("var")
        vF = _var(X, s, e, 0)
        base = [var > 0, vF >= WELL_ABOVE]

        def run(eng, acc):
            from skchange.anomaly_scores import Saving
            from skchange.costs import GaussianVarCost
            with proxy.settings(exact=True):
                out = Saving(GaussianVarCost((SymReal(mu), SymReal(var)))).fit(X).evaluate(np.array([[s, e]]))
                q = vF / var
                lq = log_term(q)
                lemmas = [lq <= q - 1,                                           # log x <= x - 1 at q
                          log_term(PI2 * var) + lq == log_term(PI2 * vF)]        # log(ab) = log a + log b at (2 pi var, q)
                eng.log_lemmas += ["log(q)<=q-1", "log(2pi var)+log(q)=log(2pi v)"]
                for lem in lemmas:
                    eng.assume(lem, conservative=True)
                acc.oblige(eng, "gvar.optimal_not_above_fixed_and_saving_nonnegative", rv(out[0, 0]) >= 0, dict(info, cut=iv))
                acc.inc("lemma_instances", 2)

        return Harness(run, base, sliced=True, timeout_ms=20000, name=f"gauss fixed {iv}")

    ms = 2
    for cut in cuts3(n, ms):
        hs.append(split_h(cut))
    if kind == "gvar":
        for iv in [(s, e) for s in range(n) for e in range(s + 2, n + 1)]:
            hs.append(fixed_h(iv))
    return hs


def make_vacuity(n=4):
    """Reachability twin of the Gaussian inequality harness: with the concavity
    instance left out the obligation must be refutable (otherwise it is vacuous)."""
    X = sym_matrix(n, 1)
    s, k, e = 0, 2, 4
    vL, vR, vF = _var(X, s, k, 0), _var(X, k, e, 0), _var(X, s, e, 0)
    base = [vL >= WELL_ABOVE, vR >= WELL_ABOVE, vF >= WELL_ABOVE]

    def run(eng, acc):
        from skchange.change_scores import ChangeScore
        from skchange.costs import GaussianVarCost
        with proxy.settings(exact=True):
            out = ChangeScore(GaussianVarCost()).fit(X).evaluate(np.array([[s, k, e]]))
            ok, model = eng.valid(rv(out[0, 0]) >= 0)
            acc.concrete("vacuity.unprovable_without_lemmas", ok is False, dict(part="vacuity", result=str(ok)))

    return Harness(run, base, sliced=True, timeout_ms=20000, name="gauss vacuity")


def jobs(tier):
    M = "harness.c06"
    out = []
    if tier == "quick":
        ad, di, ga, gc = [(3, 1), (5, 2)], [(3, 1), (5, 1), (4, 2)], [4, 5], [4]
    else:
        ad, di, ga, gc = [(3, 1), (5, 2), (6, 2)], [(3, 1), (5, 1), (5, 2), (6, 2)], [4, 5, 6], [4, 5]
    for (n, p) in ad:
        out.append(Job(M, "make_adapters", dict(n=n, p=p)))
    for (n, p) in di:
        out.append(Job(M, "make_direct", dict(n=n, p=p)))
    for n in ga:
        out.append(Job(M, "make_gauss", dict(n=n, kind="gvar")))
    for n in gc:
        out.append(Job(M, "make_gauss", dict(n=n, kind="gcov")))
    out.append(Job(M, "make_vacuity", dict(n=4)))
    # adapters over the built-in costs, every parameter mode, symbolic data and symbolic fixed parameters
    if tier == "quick":
        bi = [("l2", "optim", 4, 2), ("l2", "fixed_scalar", 4, 2), ("l2", "fixed_percol", 4, 2), ("l2", "fixed_percol", 3, 3),
              ("gvar", "optim", 4, 1), ("gvar", "fixed_scalar", 4, 1), ("gvar", "fixed_percol", 4, 2)]
    else:
        bi = [("l2", m, n, p_) for m in ("optim", "fixed_scalar", "fixed_percol") for (n, p_) in ((4, 2), (5, 2), (4, 3)) if not (m == "fixed_percol" and p_ == 1)]
        bi += [("gvar", "optim", 4, 1), ("gvar", "optim", 4, 2), ("gvar", "fixed_scalar", 5, 1), ("gvar", "fixed_percol", 4, 2), ("gvar", "fixed_percol", 5, 2),
               ("gcov", "fixed_scalar", 4, 1), ("gcov", "fixed_sym", 4, 2)]
    for (kind, mode, n, p_) in bi:
        out.append(Job(M, "make_builtin", dict(kind=kind, mode=mode, n=n, p=p_)))
    return out


# ---------------------------------------------------------------------------------- machine integers (native, not a solver verdict)

def _machine_int_cases():
    from skchange.anomaly_scores import L2Saving, LocalAnomalyScore, Saving
    from skchange.change_scores import CUSUM, ChangeScore
    from skchange.costs import GaussianVarCost, L2Cost
    n = 48
    c2 = np.array([[0, n], [3, 40], [10, 45]])
    c3 = np.array([[0, 20, n], [2, 35, 47], [5, 9, 44]])
    c4 = np.array([[0, 10, 30, n], [1, 20, 25, 46]])
    return n, [("L2Cost", L2Cost, c2), ("GaussianVarCost", GaussianVarCost, c2), ("CUSUM", CUSUM, c3), ("L2Saving", L2Saving, c2),
               ("ChangeScore(L2Cost)", lambda: ChangeScore(L2Cost()), c3), ("ChangeScore(GaussianVarCost)", lambda: ChangeScore(GaussianVarCost()), c3),
               ("Saving(L2Cost(0))", lambda: Saving(L2Cost(0.0)), c2), ("Saving(L2Cost(1500.5))", lambda: Saving(L2Cost(1500.5)), c2),
               ("LocalAnomalyScore(L2Cost)", lambda: LocalAnomalyScore(L2Cost()), c4)]


def _machine_int_run(dt):
    """scores on count-like data (values around 1500, 48 rows, 2 columns) held in a narrow integer dtype vs the same values as float64"""
    n, cases = _machine_int_cases()
    base = np.random.default_rng(2024).integers(1200, 1800, size=(n, 2))
    bad = []
    with proxy.native():
        for name, mk, cuts in cases:
            try:
                a = mk().fit(base.astype(dt)).evaluate(cuts)
                b = mk().fit(base.astype(float)).evaluate(cuts)
                if a.shape != b.shape or not np.allclose(a, b, rtol=1e-9, atol=1e-6):
                    bad.append(f"{name} on {dt} data: {np.asarray(a)[0].tolist()} but on the same values as float64: {np.asarray(b)[0].tolist()}")
            except Exception as ex:
                bad.append(f"{name} on {dt} data raised {type(ex).__name__}: {ex}"[:200])
    return bad


def extra(tier, seed):
    """The symbolic runs model integers as mathematical integers.  What a *machine* integer dtype adds (wrap-around of
    sums and squares in work arrays that inherit the data's dtype) is checked natively here, on count-like data of
    moderate size: the scores must be those of the same values held as float64 (seed C06-d).  Reported separately in
    the evidence as a native differential run, not as a solver verdict."""
    acc = Acc()
    # int32 / int64 only: with 16-bit data the pinned tree already wraps in `X**2` inside L2Cost / GaussianVarCost._fit
    # (values ~1500); that is outside every property's quantifier (C01: floats, C11: int64 / float64) and is recorded in
    # DESIGN.md as an observation, not claimed here
    for dt in ("int32", "int64"):
        bad = _machine_int_run(dt)
        acc.concrete("machine_integer_data.same_scores_as_float64", not bad, dict(part="machine_ints", dtype=dt, first=(bad or [""])[0][:300]))
        if not bad:
            acc.inc("translator_ok")
    return acc


def _replay_builtin(info, env, Xf, ob, key):
    """Native re-run of the same batches; the reference is the cost's own evaluate on the same data.  When the
    model's point does not separate the two (z3's model of the uninterpreted log), a few deterministic data /
    parameter points are tried as well: a reproduced violation needs one concrete failing input, any one."""
    from skchange.anomaly_scores import LocalAnomalyScore, Saving
    from skchange.change_scores import ChangeScore
    from .c01 import _min_size, _native_cost
    kind, mode, n, p = info["kind"], info["mode"], info["n"], info["p"]
    ms = _min_size(kind, p)
    rng = np.random.default_rng(11)
    tries = [(Xf, env)]
    for t in range(6):
        e2 = dict(env)
        for j in range(p):
            e2[f"mu_{j}"] = float(rng.integers(-3, 4)) if (t + j) % 3 else 0.0
            e2[f"var_{j}"] = float(rng.integers(1, 5)) / 2
        e2["mu"], e2["var"], e2["cv"] = float(rng.integers(-3, 4)), float(rng.integers(1, 5)) / 2, 1.5
        for a in range(p):
            for b in range(a, p):
                e2[f"s_{a}_{b}"] = 2.0 if a == b else 0.5
        tries.append((rng.integers(-8, 9, size=(n, p)) / 2.0, e2))
    bad = []
    with proxy.native():
        for X, e_ in tries:
            mk = lambda: _native_cost(kind, mode, p, e_)
            try:
                c2 = [(s, e) for s in range(n) for e in range(s + ms, n + 1)]
                own = mk().fit(X).evaluate(np.array(c2))
                val = {c: own[i] for i, c in enumerate(c2)}
                if "change_score" in ob:
                    c3 = cuts3(n, ms)
                    got = ChangeScore(mk()).fit(X).evaluate(np.array(c3))
                    for i, (s, k, e) in enumerate(c3):
                        want = val[(s, e)] - val[(s, k)] - val[(k, e)]
                        if tuple(got.shape) != (len(c3), own.shape[1]) or not np.allclose(got[i], want, rtol=1e-7, atol=1e-8):
                            bad.append(f"ChangeScore({type(mk()).__name__}, {mode}).evaluate(batch) row {(s, k, e)} = {got[i].tolist()} but C(s,e)-C(s,k)-C(k,e) = {want.tolist()}")
                            break
                elif "saving" in ob:
                    opt = _native_cost(kind, "optim", p, e_).fit(X).evaluate(np.array(c2))
                    got = Saving(mk()).fit(X).evaluate(np.array(c2))
                    for i, c in enumerate(c2):
                        want = own[i] - opt[i]
                        if tuple(got.shape) != own.shape or not np.allclose(got[i], want, rtol=1e-7, atol=1e-8):
                            bad.append(f"Saving({type(mk()).__name__}, {mode}).evaluate(batch) row {c} = {got[i].tolist()} but C_fixed - C_optimal = {want.tolist()}")
                            break
                else:
                    c4 = cuts4(n, ms)
                    got = LocalAnomalyScore(mk()).fit(X).evaluate(np.array(c4))
                    for i, (s, a, b, e) in enumerate(c4):
                        pooled = np.concatenate((X[s:a], X[b:e]))
                        want = val[(s, e)] - val[(a, b)] - mk().fit(pooled).evaluate(np.array([[0, len(pooled)]]))[0]
                        if not np.allclose(got[i], want, rtol=1e-7, atol=1e-8):
                            bad.append(f"LocalAnomalyScore({type(mk()).__name__}, {mode}).evaluate(batch) row {(s, a, b, e)} = {got[i].tolist()} but outer-inner-pooled = {want.tolist()}")
                            break
            except RuntimeError:
                continue
            if bad:
                pars = {k: v for k, v in e_.items() if k.startswith(("mu", "var", "cv", "s_"))}
                return dict(reproduced=True, key=key + "|" + kind + "|" + mode, what=(bad[0] + f" [X={np.asarray(X).tolist()}, params={pars}]")[:800])
    return dict(reproduced=False, key=key, what="adapter output equals the cost difference natively at the model point and at 6 further points")


def replay(cx):
    info = cx.get("info") or {}
    model = cx.get("model") or {}
    ob = cx["ob"]
    n, p = info.get("n"), info.get("p")
    key = ob
    env = {}
    for k, v in model.items():
        try:
            env[k] = float(Fraction(v))
        except Exception:
            pass
    bad = []
    from skchange.anomaly_scores import L2Saving, LocalAnomalyScore, Saving
    from skchange.change_scores import CUSUM, ChangeScore
    from skchange.costs import GaussianCovCost, GaussianVarCost, L2Cost
    if info.get("part") == "machine_ints":
        badm = _machine_int_run(info["dtype"])
        return dict(reproduced=bool(badm), key=f"machine_ints|{info['dtype']}", what="; ".join(badm[:2])[:700])
    if info.get("part") == "vacuity":
        return dict(reproduced=None, key=key, what="vacuity twin failed: the Gaussian inequality harness proves its claim without the lemmas")
    if info.get("part") == "adapters":
        rng = np.random.default_rng(1)
        tab = {}

        class Tab(dict):
            def get(self, k, d=None):
                if k not in self:
                    self[k] = float(rng.integers(-20, 21)) / 4
                return self[k]
        with proxy.native():
            if ob.startswith("change_score"):
                t = Tab()
                batch = cuts3(n)          # the harness evaluates the whole batch in one call
                got = ChangeScore(TableCost(p=p, values=t)).fit(dummy(n, p)).evaluate(np.array(batch))
                for i, (s, k, e) in enumerate(batch):
                    want = [t.get(f"co_{s}_{e}_{j}") - t.get(f"co_{s}_{k}_{j}") - t.get(f"co_{k}_{e}_{j}") for j in range(p)]
                    if tuple(got.shape) != (len(batch), p) or not np.allclose(got[i].astype(float), want):
                        bad.append(f"ChangeScore(cost).evaluate(batch of all {len(batch)} cuts) row {i} = cut {(s, k, e)}: {np.asarray(got[i]).tolist()} but C(s,e)-C(s,k)-C(k,e) = {want}")
                        break
            elif ob.startswith("saving"):
                t = Tab()
                batch = [(s, e) for s in range(n) for e in range(s + 1, n + 1)]
                got = Saving(TableCost(param=0.0, p=p, values=t)).fit(dummy(n, p)).evaluate(np.array(batch))
                for i, (s, e) in enumerate(batch):
                    want = [t.get(f"cf_{s}_{e}_{j}") - t.get(f"co_{s}_{e}_{j}") for j in range(p)]
                    if tuple(got.shape) != (len(batch), p) or not np.allclose(got[i].astype(float), want):
                        bad.append(f"Saving(cost).evaluate(batch) row {i} = cut {(s, e)}: {np.asarray(got[i]).tolist()} but C_fixed - C_optimal = {want}")
                        break
            elif ob.startswith("local_score"):
                X = rng.integers(-8, 9, size=(n, p)).astype(float)
                batch = cuts4(n)
                fixed = "fixed" in str(info.get("cost", ""))
                cost = L2Cost(1.0) if fixed else L2Cost()
                got = LocalAnomalyScore(cost).fit(X).evaluate(np.array(batch))
                r = (lambda A: ((A - 1.0) ** 2).sum(axis=0)) if fixed else (lambda A: ((A - A.mean(axis=0)) ** 2).sum(axis=0))
                for i, (s, a, b, e) in enumerate(batch):
                    want = r(X[s:e]) - r(X[a:b]) - r(np.concatenate((X[s:a], X[b:e])))
                    if tuple(got.shape) != (len(batch), p) or not np.allclose(got[i], want):
                        bad.append(f"LocalAnomalyScore({'L2Cost(1.0)' if fixed else 'L2Cost()'}).evaluate(batch) row {i} = cut {(s, a, b, e)}: {got[i].tolist()} but outer-inner-pooled = {want.tolist()} on X={X.tolist()}")
                        break
            else:
                # converter obligations: re-evaluated here on the real functions (not taken over from the harness run)
                from skchange.anomaly_scores import to_local_anomaly_score, to_saving
                from skchange.change_scores import to_change_score
                table = {"to_change_score": (to_change_score, TableChangeScore(p=p), TableSaving(p=p)),
                         "to_saving": (to_saving, TableSaving(p=p), TableChangeScore(p=p)),
                         "to_local_anomaly_score": (to_local_anomaly_score, TableLocalScore(p=p), TableSaving(p=p))}
                name = ob.split(".")[0]
                if name not in table:
                    return dict(reproduced=None, key=key, what=f"{ob}: no native replay for this obligation (info {str(info)[:200]})")
                conv, same, other = table[name]
                if conv(same) is not same:
                    bad.append(f"{name}(<a scorer of the matching type>) does not return the same object")
                try:
                    conv(other)
                    bad.append(f"{name}(<a scorer of another type>) does not raise ValueError")
                except ValueError:
                    pass
                if type(conv(TableCost(param=0.0, p=p))).__name__ not in ("ChangeScore", "Saving", "LocalAnomalyScore"):
                    bad.append(f"{name}(<a cost>) does not wrap the cost in an adapter")
        return dict(reproduced=bool(bad), key=key, what="; ".join(bad)[:700])
    Xf = np.array([[env.get(f"x_{i}_{j}", 0.0) for j in range(p)] for i in range(n)])
    cut = info.get("cut")
    if info.get("part") == "builtin":
        return _replay_builtin(info, env, Xf, ob, key)
    r = lambda A: ((A - A.mean(axis=0)) ** 2).sum(axis=0)
    with proxy.native():
        if ob.startswith("cusum") or ob.startswith("l2_change_score"):
            s, k, e = cut
            want = r(Xf[s:e]) - r(Xf[s:k]) - r(Xf[k:e])
            cu = CUSUM().fit(Xf).evaluate(np.array([cut]))[0]
            l2 = ChangeScore(L2Cost()).fit(Xf).evaluate(np.array([cut]))[0]
            if not np.allclose(cu ** 2, want, rtol=1e-7, atol=1e-9) or (cu < 0).any():
                bad.append(f"CUSUM({cut})^2 = {(cu ** 2).tolist()} but the L2 change score is {want.tolist()}")
            if not np.allclose(l2, want, rtol=1e-7, atol=1e-9) or (l2 < -1e-9).any():
                bad.append(f"ChangeScore(L2Cost)({cut}) = {l2.tolist()} but the RSS difference is {want.tolist()}")
        elif ob.startswith("l2_saving") or ob.startswith("saving_l2cost0") or ob.startswith("l2.optimal"):
            s, e = cut
            want = (Xf[s:e] ** 2).sum(axis=0) - r(Xf[s:e])
            a = L2Saving().fit(Xf).evaluate(np.array([cut]))[0]
            b = Saving(L2Cost(0.0)).fit(Xf).evaluate(np.array([cut]))[0]
            g = Saving(L2Cost(env.get("mu", 0.0))).fit(Xf).evaluate(np.array([cut]))[0]
            if not np.allclose(a, want, rtol=1e-7, atol=1e-9):
                bad.append(f"L2Saving({cut}) = {a.tolist()} but Saving of the L2 cost at mean 0 is {want.tolist()}")
            if not np.allclose(b, want, rtol=1e-7, atol=1e-9):
                bad.append(f"Saving(L2Cost(0))({cut}) = {b.tolist()} but the definition gives {want.tolist()}")
            if (g < -1e-9).any():
                bad.append(f"Saving(L2Cost({env.get('mu', 0.0)}))({cut}) = {g.tolist()} is negative")
        elif info.get("part") == "gauss":
            kind = info.get("kind")
            if len(cut) == 3:
                cost = GaussianVarCost() if kind == "gvar" else GaussianCovCost()
                v = ChangeScore(cost).fit(Xf).evaluate(np.array([cut]))[0]
                if (v < -1e-7).any():
                    bad.append(f"ChangeScore({type(cost).__name__})({cut}) = {v.tolist()} is negative")
            else:
                v = Saving(GaussianVarCost((env.get("mu", 0.0), env.get("var", 1.0)))).fit(Xf).evaluate(np.array([cut]))[0]
                if (v < -1e-7).any():
                    bad.append(f"Saving(GaussianVarCost(({env.get('mu', 0.0)}, {env.get('var', 1.0)})))({cut}) = {v.tolist()} is negative")
    return dict(reproduced=bool(bad), key=key, what=("; ".join(bad) + f" [X={Xf.tolist()}]")[:800])
