"""symnp.core -- path-exploring symbolic executor (engine E1 of DESIGN.md, section 2.1).

The real functions of /repo/skchange are *executed* on NumPy object arrays whose
elements are the scalars defined here.  Every data-dependent decision of the program
(`SymBool.__bool__`, `SymInt.__index__`, argmin/argmax) is routed to the current
`Engine`, which asks z3 which alternatives are feasible under the path condition and
schedules them.  Exploration is depth first by re-execution.

Design points taken from the design-phase probes (all were necessary, not optional):
  * one incremental solver (push/pop) for linear harnesses, constraint-independence
    slicing with throw-away solvers for non-linear ones (`sliced=True`);
  * k-way `choose` (used for argmin/argmax and integer concretisation);
  * per-path decision memo keyed by the AST ids of the simplified conditions;
  * auxiliary variables (sqrt, log, quantile ...) named by creation index *within the
    path* so that re-execution of a prefix re-creates identical terms;
  * `log` is Ackermannised: a fresh real per application plus congruence axioms.
"""
from __future__ import annotations

import math
import numbers
import time
from fractions import Fraction

import numpy as _np
import z3


class PathAbort(BaseException):
    """Path-steering exception (BaseException on purpose: `except Exception` in the
    code under analysis must not swallow it)."""


class Infeasible(PathAbort):
    pass


class PathTimeout(PathAbort):
    """The code under analysis did not return on this path within the per-path wall limit (e.g. a loop of the real code
    that never terminates on modified code).  The path is abandoned and reported as inconclusive; the worker goes on."""

    def __str__(self):
        return "the real code did not return on this path within the per-path time limit"


class Frontier(PathAbort):
    pass


class Unknown(PathAbort):
    pass


# ----------------------------------------------------------------------------------
# helpers on z3 terms
# ----------------------------------------------------------------------------------

def free_vars(t, cache=None):
    """Names of the uninterpreted constants occurring in term t (memoised by AST id)."""
    if cache is not None:
        hit = cache.get(t.get_id())
        if hit is not None:
            return hit[1]
    acc = set()
    stack = [t]
    seen = set()
    while stack:
        u = stack.pop()
        i = u.get_id()
        if i in seen:
            continue
        seen.add(i)
        if z3.is_const(u):
            if u.decl().kind() == z3.Z3_OP_UNINTERPRETED:
                acc.add(u.decl().name())
        else:
            stack.extend(u.children())
    acc = frozenset(acc)
    if cache is not None:
        if len(cache) > 200000:
            cache.clear()
        cache[t.get_id()] = (t, acc)   # keep t alive: z3 reuses the ids of dead terms
    return acc


def to_fraction(v):
    """z3 numeral -> Fraction."""
    if z3.is_int_value(v):
        return Fraction(v.as_long())
    if z3.is_rational_value(v):
        return Fraction(v.numerator_as_long(), v.denominator_as_long())
    if z3.is_algebraic_value(v):
        return Fraction(v.approx(30).numerator_as_long(), v.approx(30).denominator_as_long())
    raise TypeError(f"not a numeral: {v}")


# ----------------------------------------------------------------------------------
# the engine
# ----------------------------------------------------------------------------------

class Engine:
    cur: "Engine" = None

    def __init__(self, base=(), timeout_ms=20000, fixed_prefix=(), frontier_depth=None,
                 sliced=False, max_int_values=64):
        self.base = [c for c in base]
        self.timeout_ms = timeout_ms
        self.sliced = sliced
        self.max_int_values = max_int_values
        self.solver = z3.Solver()
        self.solver.set("timeout", timeout_ms)
        for c in self.base:
            self.solver.add(c)
        self.fixed = len(fixed_prefix)
        # trace entries: dict(d=decision index, alts=[unexplored alternatives])
        self.trace = [dict(d=d, alts=[]) for d in fixed_prefix]
        self.pc = []                 # constraint of each trace entry (len == synced)
        self.pos = 0
        self.synced = 0
        self.model = None
        self.frontier_depth = frontier_depth
        self.frontier = []
        self.nchecks = 0
        self.solver_s = 0.0
        self.ndecisions = 0
        self.unknowns = 0
        self._fv_cache = {}
        self.begin_path()

    def _abort(self, exc):
        """Raise a path-steering exception and remember it: NumPy's C code may swallow
        an exception raised inside __index__ / __bool__ and raise its own instead; the
        explorer then still learns that the path was aborted."""
        self.pending = exc
        raise exc

    # ---- per-path state ---------------------------------------------------------
    def begin_path(self):
        self.pending = None
        self.pos = 0
        self.memo = {}
        self.aux = {}
        self.logs = []          # Ackermann table of log: (arg term, value var)
        self.log_lemmas = []    # recorded contract instances (for evidence)
        self.notes = {}         # free-form per-path scratch for harnesses/stubs

    def fresh(self, kind, sort="real"):
        k = self.aux.get(kind, 0) + 1
        self.aux[kind] = k
        name = f"{kind}#{k}"
        return z3.Real(name) if sort == "real" else z3.Int(name)

    # ---- solver access ----------------------------------------------------------
    def _relevant(self, term, about=None):
        """Constraints of base+pc sharing variables (transitively) with term."""
        need = set(free_vars(term, self._fv_cache))
        if about is not None:
            need |= free_vars(about, self._fv_cache)
        pool = [(c, free_vars(c, self._fv_cache)) for c in self.base + self.pc[: self.synced]]
        rel = []
        changed = True
        while changed and pool:
            changed = False
            rest = []
            for c, vs in pool:
                if vs & need:
                    rel.append(c)
                    need |= vs
                    changed = True
                else:
                    rest.append((c, vs))
            pool = rest
        return rel

    def check(self, term, about=None):
        """Satisfiability of (path condition AND term): z3.sat / unsat / unknown.
        `about`: a term whose variables must also be covered by the slice."""
        t0 = time.time()
        if self.sliced:
            s = z3.Solver()
            s.set("timeout", self.timeout_ms)
            s.add(*self._relevant(term, about))
            s.add(term)
            r = s.check()
            self._last = s
        else:
            r = self.solver.check(term)
            self._last = self.solver
        self.solver_s += time.time() - t0
        self.nchecks += 1
        if r == z3.unknown:
            self.unknowns += 1
        return r

    def last_model(self):
        return self._last.model()

    def _says(self, term):
        if self.model is None:
            return None
        try:
            v = self.model.eval(term, model_completion=True)
        except z3.Z3Exception:
            return None
        return True if z3.is_true(v) else False if z3.is_false(v) else None

    def _commit(self, term):
        if not self.sliced:
            self.solver.push()
            self.solver.add(term)
        del self.pc[self.synced:]
        self.pc.append(term)
        self.synced += 1
        if self._says(term) is not True:
            self.model = None

    def path_model(self, extra=()):
        """A model of base + path condition (+ extra constraints) or None."""
        s = z3.Solver()
        s.set("timeout", self.timeout_ms)
        s.add(*self.base)
        s.add(*self.pc[: self.synced])
        s.add(*extra)
        t0 = time.time()
        r = s.check()
        self.solver_s += time.time() - t0
        self.nchecks += 1
        return s.model() if r == z3.sat else None

    def get_model(self):
        if self.model is None:
            if self.sliced:
                m = self.path_model()
                if m is None:
                    self._abort(Unknown("no model for path condition"))
                self.model = m
            else:
                t0 = time.time()
                r = self.solver.check()
                self.solver_s += time.time() - t0
                self.nchecks += 1
                if r != z3.sat:
                    self._abort(Unknown(f"no model for path condition: {r}"))
                self.model = self.solver.model()
        return self.model

    # ---- decisions --------------------------------------------------------------
    def choose(self, options, known_feasible=False):
        """options: list of (value, z3 condition).  Explores exactly the feasible ones
        and returns the value chosen on this path.  Conditions need not be exclusive."""
        conds = [c if isinstance(c, z3.ExprRef) else z3.BoolVal(bool(c)) for _, c in options]
        key = tuple(c.get_id() for c in conds)
        hit = self.memo.get(key)
        if hit is not None:
            return options[hit[0]][0]
        i = self.pos
        self.pos += 1
        self.ndecisions += 1
        if i < len(self.trace):
            d = self.trace[i]["d"]
            if i >= self.synced:
                self._commit(conds[d])
            self.memo[key] = (d, conds)   # conds kept alive: ids of dead terms are reused
            return options[d][0]
        if self.frontier_depth is not None and i >= self.frontier_depth:
            self._abort(Frontier())
        feas = []
        for k, cond in enumerate(conds):
            if z3.is_false(cond):
                continue
            if known_feasible or z3.is_true(cond) or self._says(cond) is True:
                feas.append(k)
                continue
            r = self.check(cond)
            if r == z3.unknown:
                self._abort(Unknown("feasibility check returned unknown"))
            if r == z3.sat:
                feas.append(k)
        if not feas:
            self._abort(Infeasible())
        k0 = feas[0]
        for k in feas:
            if self._says(conds[k]) is True:
                k0 = k
                break
        self.trace.append(dict(d=k0, alts=[k for k in feas if k != k0]))
        self._commit(conds[k0])
        self.memo[key] = (k0, conds)
        return options[k0][0]

    def branch(self, term):
        # simplification only detects constant conditions; the *original* term is
        # committed so that sub-terms stay hash-consed with those of later queries
        # (a simplified polynomial would have to be re-proved equal by nlsat).
        st = z3.simplify(term)
        if z3.is_true(st):
            return True
        if z3.is_false(st):
            return False
        return self.choose([(False, z3.Not(term)), (True, term)])

    def assume(self, term, conservative=False):
        """Add a constraint to the current path (single-option choice, keeps replay
        aligned).  Raises Infeasible when the path cannot satisfy it.  With
        conservative=True the caller guarantees that the constraint only defines fresh
        variables (it cannot make a satisfiable path unsatisfiable) and the
        feasibility check is skipped."""
        if z3.is_true(z3.simplify(term)):
            return
        if not conservative:
            self.choose([(None, term)])
            return
        key = (term.get_id(),)
        if key in self.memo:
            return
        i = self.pos
        self.pos += 1
        if i >= len(self.trace):
            self.trace.append(dict(d=0, alts=[]))
        if i >= self.synced:
            self._commit(term)
        self.memo[key] = (0, [term])

    def concretize_int(self, term):
        """Case split over *all* feasible values of an integer term (one k-way choice
        over the sorted value list, so that re-execution is deterministic)."""
        st = z3.simplify(term)
        if z3.is_int_value(st):
            return st.as_long()
        i = self.pos
        if i < len(self.trace) and "values" in self.trace[i] and self.trace[i].get("tid") == term.get_id():
            values = self.trace[i]["values"]
        else:
            values = self._enumerate_int(term)
        opts = [(v, term == v) for v in values]
        val = self.choose(opts, known_feasible=True)
        if self.pos > i and i < len(self.trace) and "values" not in self.trace[i]:
            # position i was consumed by this call (no memo hit).  For a replayed
            # fixed-prefix entry this is the first replay: only the constraints
            # before position i were committed, so the enumeration is the original
            # one; later paths keep the whole prefix committed (which would shrink
            # the list) and must reuse it.
            self.trace[i]["values"] = values
            self.trace[i]["tid"] = term.get_id()
            self.trace[i]["term"] = term      # keeps the id alive
        return val

    def _enumerate_int(self, term):
        key = ("enum", term.get_id(), self.synced)
        hit = self.memo.get(key)
        if hit is not None:
            return hit[0]
        found = []
        while True:
            blk = z3.And([term != v for v in found]) if found else z3.BoolVal(True)
            r = self.check(blk, about=term)
            if r == z3.unsat:
                break
            if r != z3.sat:
                self._abort(Unknown("integer enumeration returned unknown"))
            found.append(self.last_model().eval(term, model_completion=True).as_long())
            if len(found) > self.max_int_values:
                self._abort(Unknown("integer concretisation exceeded max_int_values"))
        if not found:
            self._abort(Infeasible())
        found.sort()
        self.memo[key] = (found, term)
        return found

    # ---- obligations ------------------------------------------------------------
    def valid(self, prop):
        """Decide `path condition => prop`.  Returns (True, None) when valid,
        (False, model) with a counterexample, (None, None) when the solver gives up."""
        if z3.is_true(z3.simplify(prop)):
            return True, None
        r = self.check(z3.Not(prop))
        if r == z3.unsat:
            return True, None
        if r == z3.sat:
            return False, self.last_model()
        return None, None

    # ---- backtracking -----------------------------------------------------------
    def next_path(self):
        while len(self.trace) > self.fixed:
            e = self.trace[-1]
            if e["alts"]:
                e["d"] = e["alts"].pop(0)
                while self.synced > len(self.trace) - 1:
                    if not self.sliced:
                        self.solver.pop()
                    self.synced -= 1
                self.model = None
                return True
            self.trace.pop()
            while self.synced > len(self.trace):
                if not self.sliced:
                    self.solver.pop()
                self.synced -= 1
        return False


def _arm_path_alarm(timeout_ms):
    """per-path wall limit: max(60 s, 4 solver time-outs), or VERIF_PATH_TIMEOUT seconds; main thread of the process only"""
    import os
    import signal
    import threading
    if threading.current_thread() is not threading.main_thread():
        return
    limit = float(os.environ.get("VERIF_PATH_TIMEOUT", "0")) or max(60.0, 4.0 * timeout_ms / 1000.0)

    def _on_alarm(signum, frame):
        raise PathTimeout()
    try:
        signal.signal(signal.SIGALRM, _on_alarm)
        signal.setitimer(signal.ITIMER_REAL, limit)
    except (ValueError, OSError):
        pass


def _disarm_path_alarm():
    import signal
    import threading
    if threading.current_thread() is not threading.main_thread():
        return
    try:
        signal.setitimer(signal.ITIMER_REAL, 0)
    except (ValueError, OSError):
        pass


def explore(fn, base=(), timeout_ms=20000, fixed_prefix=(), frontier_depth=None,
            sliced=False, max_paths=None, on_abort=None, budget=None):
    """Run fn(engine) once per feasible path.  Returns (results, stats, engine).
    budget: after that many paths the exploration stops and hands the unexplored alternatives back as
    decision prefixes in engine.frontier (dynamic load balancing: the driver re-queues them)."""
    eng = Engine(base, timeout_ms, fixed_prefix, frontier_depth, sliced)
    prev = Engine.cur
    Engine.cur = eng
    st = dict(paths=0, complete=0, aborted=0, infeasible=0, frontier=0)
    results = []
    t0 = time.time()
    try:
        while True:
            eng.begin_path()
            try:
                try:
                    _arm_path_alarm(timeout_ms)
                    try:
                        r = fn(eng)
                    finally:
                        _disarm_path_alarm()
                except Exception:
                    if eng.pending is None:
                        raise
                    raise eng.pending        # a swallowed path-steering exception
                if eng.pending is not None:
                    raise eng.pending
                results.append(r)
                st["complete"] += 1
            except Frontier:
                st["frontier"] += 1
                eng.frontier.append([e["d"] for e in eng.trace])
            except Infeasible:
                st["infeasible"] += 1
            except PathAbort as ex:
                st["aborted"] += 1
                if on_abort is not None:
                    on_abort(eng, ex)
            st["paths"] += 1
            if max_paths and st["paths"] >= max_paths:
                st["truncated"] = True
                break
            if budget and st["paths"] >= budget:
                # hand back every pending alternative: prefix up to entry i, then the alternative
                ds = [e["d"] for e in eng.trace]
                for i in range(eng.fixed, len(eng.trace)):
                    for alt in eng.trace[i]["alts"]:
                        eng.frontier.append(ds[:i] + [alt])
                st["handed_back"] = True
                break
            if not eng.next_path():
                break
    finally:
        Engine.cur = prev
    st.update(checks=eng.nchecks, solver_s=round(eng.solver_s, 3), wall=round(time.time() - t0, 3),
              decisions=eng.ndecisions, unknowns=eng.unknowns)
    return results, st, eng


# ----------------------------------------------------------------------------------
# symbolic scalars
# ----------------------------------------------------------------------------------

def rv(v):
    """Lift a scalar to a z3 Real term (floats as the exact rational they denote)."""
    if isinstance(v, SymReal):
        return v.t
    if isinstance(v, SymInt):
        return z3.ToReal(v.t)
    if isinstance(v, SymBool):
        return z3.If(v.t, z3.RealVal(1), z3.RealVal(0))
    if isinstance(v, (bool, _np.bool_)):
        return z3.RealVal(int(v))
    if isinstance(v, (int, _np.integer)):
        return z3.RealVal(int(v))
    if isinstance(v, Fraction):
        return z3.RealVal(v)
    if isinstance(v, (float, _np.floating)):
        f = float(v)
        if math.isnan(f) or math.isinf(f):
            raise NonFinite(f)
        return z3.RealVal(Fraction(f))
    if isinstance(v, z3.ArithRef):
        return z3.ToReal(v) if v.is_int() else v
    raise TypeError(f"cannot lift {type(v).__name__} to a real term")


class NonFinite(ArithmeticError):
    def __init__(self, f):
        super().__init__(f"non-finite float {f} in symbolic arithmetic")
        self.value = f


def bz(o):
    if isinstance(o, SymBool):
        return o.t
    return z3.BoolVal(bool(o))


class SymBool:
    __slots__ = ("t",)

    def __init__(self, t):
        self.t = t

    def __bool__(self):
        return Engine.cur.branch(self.t)

    def __and__(self, o):
        if isinstance(o, _np.ndarray):
            return NotImplemented
        return SymBool(z3.And(self.t, bz(o)))

    __rand__ = __and__

    def __or__(self, o):
        if isinstance(o, _np.ndarray):
            return NotImplemented
        return SymBool(z3.Or(self.t, bz(o)))

    __ror__ = __or__

    def __invert__(self):
        return SymBool(z3.Not(self.t))

    def __repr__(self):
        return f"SymBool({self.t})"

    __hash__ = None


_OPS = {
    "lt": lambda a, b: a < b, "le": lambda a, b: a <= b, "gt": lambda a, b: a > b,
    "ge": lambda a, b: a >= b, "eq": lambda a, b: a == b, "ne": lambda a, b: a != b,
}


def lifted_cmp(op, a, b, depth=0):
    """a <op> b with top-level if-then-else operands lifted into the boolean
    structure (z3's nlsat front end is fragile on arithmetic ite inside atoms)."""
    if depth < 6:
        if z3.is_app_of(a, z3.Z3_OP_ITE):
            return z3.If(a.arg(0), lifted_cmp(op, a.arg(1), b, depth + 1), lifted_cmp(op, a.arg(2), b, depth + 1))
        if z3.is_app_of(b, z3.Z3_OP_ITE):
            return z3.If(b.arg(0), lifted_cmp(op, a, b.arg(1), depth + 1), lifted_cmp(op, a, b.arg(2), depth + 1))
    return _OPS[op](a, b)


def _inf_cmp(f, op):
    """x <op> f for finite symbolic x and infinite / nan float f."""
    if math.isnan(f):
        return op == "ne"
    if f > 0:
        return op in ("lt", "le", "ne")
    return op in ("gt", "ge", "ne")


class SymReal:
    __slots__ = ("t",)

    def __init__(self, t):
        self.t = t

    def __repr__(self):
        return f"SymReal({z3.simplify(self.t)})"

    # arithmetic; returning NotImplemented for arrays lets NumPy broadcast
    def __add__(self, o):
        if isinstance(o, _np.ndarray):
            return NotImplemented
        try:
            return SymReal(self.t + rv(o))
        except NonFinite as e:
            return e.value

    __radd__ = __add__

    def __sub__(self, o):
        if isinstance(o, _np.ndarray):
            return NotImplemented
        try:
            return SymReal(self.t - rv(o))
        except NonFinite as e:
            return -e.value

    def __rsub__(self, o):
        try:
            return SymReal(rv(o) - self.t)
        except NonFinite as e:
            return e.value

    def __mul__(self, o):
        if isinstance(o, _np.ndarray):
            return NotImplemented
        return SymReal(self.t * rv(o))

    __rmul__ = __mul__

    def __truediv__(self, o):
        if isinstance(o, _np.ndarray):
            return NotImplemented
        return SymReal(self.t / rv(o))

    def __rtruediv__(self, o):
        return SymReal(rv(o) / self.t)

    def __neg__(self):
        return SymReal(-self.t)

    def __pos__(self):
        return self

    def __abs__(self):
        return SymReal(z3.If(self.t >= 0, self.t, -self.t))

    def __pow__(self, k):
        if isinstance(k, SymInt):
            k = int(k)
        if isinstance(k, (int, _np.integer)) and k >= 0:
            r = z3.RealVal(1)
            for _ in range(int(k)):
                r = r * self.t
            return SymReal(r)
        if isinstance(k, (float, _np.floating)) and float(k) == 0.5:
            return sym_sqrt(self)
        if isinstance(k, (float, _np.floating)) and float(k).is_integer() and k >= 0:
            return self.__pow__(int(k))
        raise TypeError(f"unsupported power {k!r} of a symbolic real")

    def _cmp(self, o, op):
        if isinstance(o, _np.ndarray):
            return NotImplemented
        if isinstance(o, (float, _np.floating)):
            f = float(o)
            if math.isnan(f) or math.isinf(f):
                return _inf_cmp(f, op)
        return SymBool(lifted_cmp(op, self.t, rv(o)))

    def __lt__(self, o):
        return self._cmp(o, "lt")

    def __le__(self, o):
        return self._cmp(o, "le")

    def __gt__(self, o):
        return self._cmp(o, "gt")

    def __ge__(self, o):
        return self._cmp(o, "ge")

    def __eq__(self, o):
        return self._cmp(o, "eq")

    def __ne__(self, o):
        return self._cmp(o, "ne")

    __hash__ = None

    def __bool__(self):
        # Python truthiness of a number: x != 0
        return Engine.cur.branch(self.t != 0)

    def __float__(self):
        raise TypeError("symbolic real reached a native float boundary")

    # NumPy's object loops of np.sqrt / np.log call these methods
    def sqrt(self):
        return sym_sqrt(self)

    def log(self):
        return sym_log(self)

    def conjugate(self):
        return self


class SymInt:
    __slots__ = ("t",)

    def __init__(self, t):
        self.t = t if isinstance(t, z3.ExprRef) else z3.IntVal(int(t))

    def __repr__(self):
        return f"SymInt({z3.simplify(self.t)})"

    def __index__(self):
        return Engine.cur.concretize_int(self.t)

    __int__ = __index__

    def __bool__(self):
        return Engine.cur.branch(self.t != 0)

    def __float__(self):
        return float(self.__index__())

    @staticmethod
    def _w(o):
        if isinstance(o, SymInt):
            return o.t
        if isinstance(o, (bool, _np.bool_)):
            return z3.IntVal(int(o))
        if isinstance(o, (int, _np.integer)):
            return z3.IntVal(int(o))
        return None

    def _real(self):
        return SymReal(z3.ToReal(self.t))

    def __add__(self, o):
        if isinstance(o, _np.ndarray):
            return NotImplemented
        w = self._w(o)
        return SymInt(self.t + w) if w is not None else self._real() + o

    __radd__ = __add__

    def __sub__(self, o):
        if isinstance(o, _np.ndarray):
            return NotImplemented
        w = self._w(o)
        return SymInt(self.t - w) if w is not None else self._real() - o

    def __rsub__(self, o):
        w = self._w(o)
        return SymInt(w - self.t) if w is not None else o - self._real()

    def __mul__(self, o):
        if isinstance(o, _np.ndarray):
            return NotImplemented
        w = self._w(o)
        return SymInt(self.t * w) if w is not None else self._real() * o

    __rmul__ = __mul__

    def __truediv__(self, o):
        if isinstance(o, _np.ndarray):
            return NotImplemented
        return self._real() / o

    def __rtruediv__(self, o):
        return o / self._real() if not isinstance(o, (int, float, _np.number)) else SymReal(rv(o)) / self._real()

    def __floordiv__(self, o):
        w = self._w(o)
        if w is None:
            raise TypeError("floor division of a symbolic integer by a non-integer")
        return SymInt(self.t / w)  # z3 Int division; equals Python's for positive divisor

    def __neg__(self):
        return SymInt(-self.t)

    def __pos__(self):
        return self

    def __abs__(self):
        return SymInt(z3.If(self.t >= 0, self.t, -self.t))

    def __pow__(self, k):
        if isinstance(k, (int, _np.integer)) and k >= 0:
            r = z3.IntVal(1)
            for _ in range(int(k)):
                r = r * self.t
            return SymInt(r)
        return self._real() ** k

    def _cmp(self, o, op):
        if isinstance(o, _np.ndarray):
            return NotImplemented
        w = self._w(o)
        if w is None:
            return self._real()._cmp(o, op)
        return SymBool(_OPS[op](self.t, w))

    def __lt__(self, o):
        return self._cmp(o, "lt")

    def __le__(self, o):
        return self._cmp(o, "le")

    def __gt__(self, o):
        return self._cmp(o, "gt")

    def __ge__(self, o):
        return self._cmp(o, "ge")

    def __eq__(self, o):
        return self._cmp(o, "eq")

    def __ne__(self, o):
        return self._cmp(o, "ne")

    __hash__ = None

    def sqrt(self):
        return sym_sqrt(self)

    def log(self):
        return sym_log(self)

    def conjugate(self):
        return self


# skchange dispatches on isinstance(x, numbers.Number)
numbers.Real.register(SymReal)
numbers.Integral.register(SymInt)


def is_sym(v):
    return isinstance(v, (SymReal, SymInt, SymBool))


# ----------------------------------------------------------------------------------
# transcendental / algebraic functions as contracts
# ----------------------------------------------------------------------------------

def sym_sqrt(x):
    """sqrt(t) = fresh r with r >= 0 and r*r == t (defined for t >= 0; a negative
    argument makes the path infeasible, mirroring NumPy's nan which no property
    under study admits)."""
    eng = Engine.cur
    t = z3.simplify(rv(x))
    if z3.is_rational_value(t) or z3.is_int_value(t):
        q = to_fraction(t)
        if q >= 0:
            rn, rd = math.isqrt(q.numerator), math.isqrt(q.denominator)
            if rn * rn == q.numerator and rd * rd == q.denominator:
                return SymReal(z3.RealVal(Fraction(rn, rd)))
    key = ("sqrt", t.get_id())
    hit = eng.notes.get(key)
    if hit is not None:
        return SymReal(hit[0])
    r = eng.fresh("sqrt")
    eng.notes[key] = (r, t)
    eng.assume(z3.And(r >= 0, r * r == t))
    return SymReal(r)


def sym_log(x):
    """Ackermannised natural logarithm: a fresh real per application and the
    congruence axioms a == a' -> v == v' against all earlier applications of the
    path.  Further facts about log (monotonicity, concavity ...) are *not* built in;
    harnesses that need them instantiate them explicitly (`log_lemma_*`)."""
    eng = Engine.cur
    a = z3.simplify(rv(x))
    for a2, v2 in eng.logs:
        if a2.get_id() == a.get_id():
            return SymReal(v2)
    v = eng.fresh("log")
    cong = [z3.Implies(a == a2, v == v2) for a2, v2 in eng.logs]
    eng.logs.append((a, v))
    if cong:
        eng.assume(z3.And(cong), conservative=True)
    return SymReal(v)


def log_term(arg):
    """The term standing for log(arg) on the current path (oracle side)."""
    return sym_log(SymReal(arg) if isinstance(arg, z3.ExprRef) else arg).t
